#!/usr/bin/env python3
# regenerates MANIFEST.json from spec/properties.json (claimed) + the fixed not-applicable reasons
import json,subprocess
props=[json.loads(l) for l in open('/verif/properties.jsonl')]
spec=json.load(open('/verif/spec/properties.json'))
NA={
 "C12":"quantifies over goroutine schedules (data-race freedom, deadlock freedom, schedule independence): sequential pre/postconditions cannot express it and rvc has no model of goroutines, channels or sync; the sequential parts of these functions are decided under C07/C11",
}
PENDING="no function of this property's cone carries a contract whose obligations the solvers discharge within the quick budget; see DESIGN.md section 0"
LEVEL_NOTES={
 "C01":"Proved: sorted-array kernels, every container x container pairing (new-result, in-place, cardinality and predicate forms), popcount helpers, representation conversions, and the Bitmap-level drivers listed in the evidence. NOT machine-checked: drivers not listed, the induction from per-chunk to whole-bitmap results, the equality of cached cardinalities with the number of members of the view.",
 "C02":"Proved: per-chunk point/range mutation of the three kinds, bit-range helpers, chunk-table edits (insert/remove/replace, copy-on-write access), the Bitmap-level mutators listed in the evidence. NOT machine-checked: the induction over operation histories; Bitmap-level mutators not listed.",
 "C03":"Proved: scalar queries of each container kind against the view, chunk-table lookups, the Bitmap-level queries listed in the evidence. NOT machine-checked: 'chunk-level count = number of members of the view' (stated, meta-fact), Checksum.",
 "C04":"Proved: the nine chunk-level iterator types as cursors over the container view (next/peekNext/advanceIfNeeded/hasNext), a common interface contract they refine, the Bitmap-level iterators listed in the evidence. NOT machine-checked: callbacks (Iterate/Values/Ranges take function values, which are abstract), NextMany paths listed as bounded/undecided.",
 "C05":"Proved: size formulas, writers against a ghost model writer (bytes appended, count returned on success, errors propagated), readers on arbitrary byte sources (safety, exact consumption for a slice-backed source), byte sources, and a round-trip lemma procedure at the chunk-table level (ghost code: write the table into the model writer, read the record back: the decoder accepts, consumes exactly the bytes written = serializedSizeInBytes, and the decoded table has the same keys, chunk kinds and cardinality information). NOT machine-checked: equality of the VALUES inside decoded chunks with the encoded ones (payload bytes are pinned on both sides but not compared; bitset payloads go through an unsafe cast that has no bit-level contract), the Bitmap-level wrappers' composition through io interfaces, base64.",
 "C06":"Proved: layout clauses of the writers (cookie, counts, run-flag bits, descriptive and offset headers, little-endian payloads) and structure clauses of the reader. NOT machine-checked: an independent reading of the format specification (the spec predicates in the contracts are ours).",
 "C07":"Proved: frame obligations (arguments of binary operations are never written), freshness/ownership postconditions of every container operation, the copy-on-write discipline of the chunk table and the drivers listed in the evidence. BOUNDED: aggregates (FastOr..ParHeapOr, 64-bit ParOr) by small-scope enumeration. NOT machine-checked: the global no-unflagged-sharing invariant as an induction over histories.",
 "C08":"Proved: decoders flag every container aliasing the caller's bytes copy-on-write and own their tables; byte sources never write their buffer; writable access clones flagged containers. NOT machine-checked: 'every later derived bitmap' (history induction).",
 "C09":"Proved: validators characterise well-formedness; every constructive container operation ensures well-formedness and the size normal form (array <= 4096, bitmap > 4096, run size rule) where stated in the evidence. NOT machine-checked: closure over all public operations (drivers not listed), frozen round trip.",
 "C10":"Proved: decoder safety with no precondition on the bytes (every index/slice/nil/division/allocation obligation of the decoding paths), validators. NOT machine-checked: 'every proper prefix is rejected' as a statement over prefixes (follows from the exact consumption clauses, not separately proved), base64.",
 "C11":"Proved: lazy union kernels and repair per container pairing and the sequential helpers listed in the evidence. BOUNDED: FastOr/FastAnd/HeapOr/HeapXor/ParOr/ParAnd/ParHeapOr/AndAny by small-scope enumeration (goroutines, channels, container/heap are outside the subset).",
 "C13":"Proved: frozen reader (safety on arbitrary bytes, acceptance exactly on well-formed images, structure, count-field semantics, copy-on-write flags, accepted length = the writers' size formula) and the writers listed in the evidence (size, header word, type codes). NOT machine-checked: byte-level agreement of the payload regions of the three writers (stores through reinterpreting cast views of the caller's buffer: the typed memory model cannot connect the views to the bytes; their frame obligations are listed as undecided).",
 "C14":"Proved: size formulas per representation, cheapest-representation choice, and the lemma chain from the per-chunk bound to the documented bound (a well-formed table in normal form with keys below ceil(x/65536) serializes to at most 8 + 9*ceil(x/65536) + 2*N bytes). NOT machine-checked: that every public operation leaves chunks in normal form (history statement; the per-operation normal-form clauses are under C09).",
 "C15":"Proved: neighbour kernels per container kind and the Bitmap-level functions listed in the evidence. KNOWN FINDINGS: the absent-value family (A-12) is defective and recorded.",
 "C16":"Proved: per-kind offset kernels against an interface contract (low/high halves as views, normal form, fresh and disjoint storage), dense conversions (WriteDenseTo/ToDense/DenseSize/FromDense: all loops with invariants over word/bit pairs) and the drivers listed in the evidence. Partly proved (open obligations listed as undecided): Bitmap.FromDense's Bitmap-level view, AddOffset64's merge path and view, static Flip's per-slot ownership and views.",
 "C17":"Proved: 64-bit chunk table and the Bitmap methods listed in the evidence, several over ASSUMED (trusted) contracts of the 32-bit API where no proved one exists (listed under assumptions). BOUNDED: ParOr/FastOr/FastAnd by small-scope enumeration.",
 "C18":"Proved: 64-bit decoders (safety on arbitrary bytes, structure of the decoded table), validators. NOT machine-checked: round trip composition.",
 "C19":"Proved: structure-level contracts of the index updates listed in the evidence, over ASSUMED contracts of the bitmap API. BOUNDED: goroutine-based functions by small-scope enumeration where a stand-in is listed. KNOWN FINDINGS: (un)marshal defects recorded.",
 "C20":"Proved: structure-level contracts of the comparison helpers listed in the evidence. BOUNDED: parallel query functions by small-scope enumeration where a stand-in is listed.",
}
hooks=subprocess.run('git -C /repo log --format=%H -- "*zz_*_verif.go"',shell=True,capture_output=True,text=True).stdout.split()
spec.pop('_lemmas',None)
checks=[]
for p in props:
    pid=p['id']
    if pid not in spec: continue
    s=spec[pid]
    checks.append({
     "property_id":pid,
     "quick_cmd":f"./check.sh {pid} quick",
     "thorough_cmd":f"./check.sh {pid} thorough",
     "evidence_file":f"/verif/evidence/{pid}.json",
     "replay_cmd_template":"./bin/rvc replay {path}",
     "engine":"rvc",
     "level_claimed":{"category":"proof","text":"Deductive: every listed function of /repo is verified against its contract (pre/postconditions, loop invariants, frame) by weakest-precondition style VC generation over the typed AST, one SMT query per named obligation, for all inputs and all iterations; loops without an invariant are unrolled and reported separately as bounded, never counted as proved. "+s.get("note",""),"design_ref":"DESIGN.md sections 2-4"},
     "level_note":LEVEL_NOTES.get(pid,"")+" Trusted: the rvc generator and its Go-subset semantics, go/types, the SMT solvers, stdlib axioms (math/bits), signed 64-bit arithmetic treated as mathematical, the counting meta-fact; functions of the property's cone that are not listed in the evidence are not verified. See evidence.assumptions for the per-run list.",
     "technique":"contract-based deductive verification (self-written VC generator over go/types AST + z3/cvc5)"
    })
na=[]
for p in props:
    pid=p['id']
    if pid in spec: continue
    na.append({"property_id":pid,"reason":NA.get(pid,PENDING)})
m={"version":1,"setup_cmd":"./setup.sh",
 "hooks":{"guard":"verif","enable":"-tags verif (contracts and lemma procedures live in add-only zz_contracts_verif.go files)","baseline_off_cmd":". /verif/env.sh; cd /repo && go test -mod=mod -json -vet=off -count=1 -timeout 25m ./...","source_commits":hooks,"add_only":True},
 "engines":[{"name":"rvc","path":"/verif/rvc","serves_properties":sorted(spec.keys()),"kind_free_text":"self-written verification-condition generator for a Go subset (typed AST via go/packages), contracts as //@ comments + lemma procedures in build-tag-guarded files of /repo, obligations discharged by z3 5.1.0 / z3 4.8.12 / cvc5 1.0"}],
 "checks":checks,"not_applicable":na,
 "notes":"Every check regenerates its VCs from /repo's working tree. `./bin/rvc lemmas` re-proves the bit/popcount lemma library (run by each word-level check)."}
json.dump(m,open('/verif/MANIFEST.json','w'),indent=1)
print(len(checks),'checks',len(na),'n/a')
