#!/usr/bin/env python3
# regenerates MANIFEST.json from spec/properties.json (claimed) + the fixed not-applicable reasons
import json,subprocess
props=[json.loads(l) for l in open('/verif/properties.jsonl')]
spec=json.load(open('/verif/spec/properties.json'))
NA={
 "C12":"quantifies over goroutine schedules (data-race freedom, deadlock freedom, schedule independence): sequential pre/postconditions cannot express it and rvc has no model of goroutines, channels or sync; the sequential parts of these functions are decided under C07/C11",
}
PENDING="no function of this property's cone carries a contract whose obligations the solvers discharge within the quick budget; see DESIGN.md section 0"
LEVEL_NOTES={
 "C01":"Proved: sorted-array kernels, every container x container pairing (new-result, in-place, cardinality/predicate forms), popcount helpers, conversions. NOT machine-checked: the Bitmap-level two-pointer drivers except where listed in the evidence, the induction from per-chunk to whole-bitmap results, the equality of cached cardinalities with the number of members of the view.",
 "C02":"Proved: per-chunk point/range mutation of the three kinds, chunk-table edits, the Bitmap-level mutators listed in the evidence. NOT machine-checked: the induction over operation histories; Bitmap-level mutators not listed.",
}
hooks=subprocess.run('git -C /repo log --format=%H -- "*zz_*_verif.go"',shell=True,capture_output=True,text=True).stdout.split()
spec.pop('_lemmas',None)
checks=[]
for p in props:
    pid=p['id']
    if pid not in spec: continue
    s=spec[pid]
    checks.append({
     "property_id":pid,
     "quick_cmd":f"./check.sh {pid} quick",
     "thorough_cmd":f"./check.sh {pid} thorough",
     "evidence_file":f"/verif/evidence/{pid}.json",
     "replay_cmd_template":"./bin/rvc replay {path}",
     "engine":"rvc",
     "level_claimed":{"category":"proof","text":"Deductive: every listed function of /repo is verified against its contract (pre/postconditions, loop invariants, frame) by weakest-precondition style VC generation over the typed AST, one SMT query per named obligation, for all inputs and all iterations; loops without an invariant are unrolled and reported separately as bounded, never counted as proved. "+s.get("note",""),"design_ref":"DESIGN.md sections 2-4"},
     "level_note":LEVEL_NOTES.get(pid,"")+" Trusted: the rvc generator and its Go-subset semantics, go/types, the SMT solvers, stdlib axioms (math/bits), signed 64-bit arithmetic treated as mathematical, the counting meta-fact; functions of the property's cone that are not listed in the evidence are not verified. See evidence.assumptions for the per-run list.",
     "technique":"contract-based deductive verification (self-written VC generator over go/types AST + z3/cvc5)"
    })
na=[]
for p in props:
    pid=p['id']
    if pid in spec: continue
    na.append({"property_id":pid,"reason":NA.get(pid,PENDING)})
m={"version":1,"setup_cmd":"./setup.sh",
 "hooks":{"guard":"verif","enable":"-tags verif (contracts and lemma procedures live in add-only zz_contracts_verif.go files)","baseline_off_cmd":". /verif/env.sh; cd /repo && go test -mod=mod -json -vet=off -count=1 -timeout 25m ./...","source_commits":hooks,"add_only":True},
 "engines":[{"name":"rvc","path":"/verif/rvc","serves_properties":sorted(spec.keys()),"kind_free_text":"self-written verification-condition generator for a Go subset (typed AST via go/packages), contracts as //@ comments + lemma procedures in build-tag-guarded files of /repo, obligations discharged by z3 5.1.0 / z3 4.8.12 / cvc5 1.0"}],
 "checks":checks,"not_applicable":na,
 "notes":"Every check regenerates its VCs from /repo's working tree. `./bin/rvc lemmas` re-proves the bit/popcount lemma library (run by each word-level check)."}
json.dump(m,open('/verif/MANIFEST.json','w'),indent=1)
print(len(checks),'checks',len(na),'n/a')
