#!/bin/sh
# builds the verifier offline from files on disk only
set -e
cd "$(dirname "$0")"
. ./env.sh
mkdir -p bin evidence
cd rvc && go build -o ../bin/rvc .
