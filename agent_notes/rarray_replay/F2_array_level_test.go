package roaring

import "testing"

// F2: getFastContainerAtIndex(i, true) hands out a shared FULL run container; lazyIOrOnRange then unflags it.
func TestReplayF2FullRunShared(t *testing.T) {
	// owner: a bitmap with a full chunk at key 1 stored as a run container, copy-on-write enabled
	owner := New()
	owner.SetCopyOnWrite(true)
	owner.AddRange(1<<16, 2<<16)
	owner.RunOptimize()
	if _, ok := owner.highlowcontainer.containers[0].(*runContainer16); !ok {
		t.Skip("not a run container")
	}
	// ra1 shares the container (flag set on both sides)
	ra1 := newRoaringArray()
	ra1.copyOnWrite = true
	ra1.appendCopy(owner.highlowcontainer, 0)
	if !ra1.needCopyOnWrite[0] || ra1.containers[0] != owner.highlowcontainer.containers[0] {
		t.Fatal("setup: expected a flagged share")
	}
	// what lazyIOrOnRange does for an equal key
	other := newBitmapContainer()
	other.iadd(5)
	c1 := ra1.getFastContainerAtIndex(0, true)
	ra1.containers[0] = c1.lazyIOR(other)
	ra1.needCopyOnWrite[0] = false
	shared := ra1.containers[0] == owner.highlowcontainer.containers[0]
	t.Logf("after the lazy step: same object as owner's container = %v, flag = %v", shared, ra1.needCopyOnWrite[0])
	// a later write through ra1
	ra1.getWritableContainerAtIndex(0).iremove(7)
	if !owner.Contains(1<<16 + 7) {
		t.Errorf("INTERFERENCE: owner lost 65543 after a write to the other bitmap (cardinality now %d, want 65536)", owner.GetCardinality())
	}
}
