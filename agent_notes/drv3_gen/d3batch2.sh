#!/bin/sh
# mutation tests against the FINAL contract (structure-only variant: the 2^32 view / bmkeep / bmframe clauses never discharge and are dropped for speed)
cd /var/tmp && rm -rf d3 && rsync -a --exclude .git /repo/ d3/ && NOSLOW=1 python3 /verif/agent_notes/drv3_gen/gen.py /var/tmp/d3/zz_bitmapdrv3_verif.go
export SRC=/var/tmp/d3 N=10
cd /verif
echo "== R (a) drop removeAtIndex"; date -u; /var/tmp/d3mut.sh Bitmap.Remove '			rb.highlowcontainer.removeAtIndex(i)
' '			_ = i
'
echo "== R (b) drop setContainerAtIndex"; date -u; /var/tmp/d3mut.sh Bitmap.Remove '		rb.highlowcontainer.setContainerAtIndex(i, c)
' '		_ = c
'
echo "== R (c) getContainerAtIndex"; date -u; /var/tmp/d3mut.sh Bitmap.Remove 'getWritableContainerAtIndex(i).iremove' 'getContainerAtIndex(i).iremove'
echo "== CR (a) drop removeAtIndex"; date -u; /var/tmp/d3mut.sh Bitmap.CheckedRemove '			rb.highlowcontainer.removeAtIndex(i)
' '			_ = i
'
echo "== CR (b) drop setContainerAtIndex"; date -u; /var/tmp/d3mut.sh Bitmap.CheckedRemove '		rb.highlowcontainer.setContainerAtIndex(i, C)
' '		_ = C
'
echo "== CR (c) getContainerAtIndex"; date -u; /var/tmp/d3mut.sh Bitmap.CheckedRemove 'C := rb.highlowcontainer.getWritableContainerAtIndex(i)' 'C := rb.highlowcontainer.getContainerAtIndex(i)'
echo "== CR (d) inverted"; date -u; /var/tmp/d3mut.sh Bitmap.CheckedRemove 'return C.getCardinality() < oldcard' 'return C.getCardinality() > oldcard'
echo "== CA (b) drop setContainerAtIndex"; date -u; /var/tmp/d3mut.sh Bitmap.CheckedAdd '		rb.highlowcontainer.setContainerAtIndex(i, C)
' '		_ = C
'
echo "== CA (c) getContainerAtIndex"; date -u; /var/tmp/d3mut.sh Bitmap.CheckedAdd 'C := rb.highlowcontainer.getWritableContainerAtIndex(i)' 'C := rb.highlowcontainer.getContainerAtIndex(i)'
echo "== CA (d) inverted"; date -u; /var/tmp/d3mut.sh Bitmap.CheckedAdd 'return C.getCardinality() > oldcard' 'return C.getCardinality() < oldcard'
echo "== DONE"; date -u
