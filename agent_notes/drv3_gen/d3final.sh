#!/bin/sh
cd /verif
for k in CheckedRemove CheckedAdd Intersects Remove; do
  echo "== $k"; date -u
  ./bin/rvc verify -x -f roaring.Bitmap.$k -t 20 2>&1 | grep -v "^    unsat" | cut -c1-420 | grep -v "^    assumes" | tail -25
done
echo "== lemmas"; ./bin/rvc verify -x -f roaring.lemma_d3ok,roaring.lemma_d3wit,roaring.lemma_d3cneIf,roaring.lemma_d3hit,roaring.lemma_d3bmvOf -t 20 2>&1 | tail -6
echo "== DONE"; date -u
