#!/bin/sh
# usage: d3mut.sh <key> <old> <new>   (mutates roaring.go inside the function of the key on a scratch copy of /var/tmp/d3 or /repo given by SRC)
SRC=${SRC:-/var/tmp/d3}
rm -rf /var/tmp/s3; rsync -a --exclude .git $SRC/ /var/tmp/s3/
python3 - "$1" "$2" "$3" <<'PY'
import sys,re
key,old,new=sys.argv[1:4]
p='/var/tmp/s3/roaring.go'
s=open(p).read()
fn=key.split('.')[-1]
a=s.index('func (rb *Bitmap) %s(' % fn)
b=s.index('\n}\n',a)
body=s[a:b]
assert old in body, 'pattern not found'
body=body.replace(old,new,1)
open(p,'w').write(s[:a]+body+s[b:])
PY
[ $? = 0 ] || exit 1
/verif/bin/rvc verify -repo /var/tmp/s3 -x -f roaring.$1 -t 20 2>&1 | grep -v "^    unsat" | cut -c1-330 | head -${N:-14}
rm -rf /var/tmp/s3
