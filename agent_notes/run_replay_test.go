package roaring

// Replay of the findings recorded in /verif/agent_notes/run.md (run container).
// Run: /verif/tools_replay.sh . /verif/agent_notes/run_replay_test.go TestRunFinding
// Each test FAILS (t.Errorf) exactly when the defect is present, and prints observed vs expected.

import "testing"

// F1 (A-8): validate accepts an interval that wraps past 65535
func TestRunFindingF1ValidateWrap(t *testing.T) {
	rc := &runContainer16{iv: []interval16{{start: 65000, length: 1000}}}
	if err := rc.validate(); err == nil {
		t.Errorf("validate({65000,1000}) = nil, expected an error (start+length = 66000 > 65535); last() = %d", rc.iv[0].last())
	}
}

// F2: toBitmapContainer counts every run twice in the cardinality field
func TestRunFindingF2ToBitmapCardinality(t *testing.T) {
	rc := &runContainer16{iv: []interval16{{start: 10, length: 5}, {start: 100, length: 9}}}
	bc := rc.toBitmapContainer()
	if pc := int(popcntSlice(bc.bitmap)); bc.cardinality != pc {
		t.Errorf("toBitmapContainer: cardinality field = %d, popcount = %d (run cardinality %d)", bc.cardinality, pc, rc.getCardinality())
	}
}

// F3: previousValue on an empty run container returns the target instead of -1
func TestRunFindingF3PreviousValueEmpty(t *testing.T) {
	rc := newRunContainer16()
	if got := rc.previousValue(5); got != -1 {
		t.Errorf("empty run container: previousValue(5) = %d, expected -1 (nextValue(5) = %d)", got, rc.nextValue(5))
	}
}

// F4 (A-19): andNot with an empty run operand returns the receiver itself
func TestRunFindingF4AndNotReturnsReceiver(t *testing.T) {
	rc := newRunContainer16Range(0, 9999) // stays a run container under toEfficientContainer
	res := rc.andNot(newRunContainer16())
	if r, ok := res.(*runContainer16); ok && r == rc {
		t.Errorf("rc.andNot(emptyRun) returned the receiver itself (static operation must return a fresh container)")
	}
}

// A-1: runContainer16.ixorBitmap XORs into its ARGUMENT (value2.ixor(rc)) instead of into the receiver
func TestRunFindingA1IxorBitmapMutatesArgument(t *testing.T) {
	rc := newRunContainer16Range(0, 9999)
	bc := newBitmapContainer()
	for i := 20000; i < 30000; i++ {
		bc.iadd(uint16(i))
	}
	before := bc.getCardinality()
	res := rc.ixor(bc)
	if after := bc.getCardinality(); after != before || res == container(bc) {
		t.Errorf("rc.ixor(bitmap): argument cardinality %d -> %d, result is the argument object: %v (receiver cardinality still %d)", before, after, res == container(bc), rc.getCardinality())
	}
}

// F6 (NEW, public witness): runContainer16.not returns rc.Not(...) without toEfficientContainer: the static Flip of a run-optimised
// bitmap can hold a run chunk that violates the size rule, so the library-made bitmap fails its own Validate() (same class as A-13/A-20)
func TestRunFindingF6StaticFlipNotNormalised(t *testing.T) {
	a := BitmapOf(0, 1, 2, 3)
	a.RunOptimize()
	if _, ok := a.highlowcontainer.containers[0].(*runContainer16); !ok {
		t.Skip("precondition: chunk is a run container")
	}
	b := Flip(a, 1, 2)
	if err := b.Validate(); err != nil {
		t.Errorf("Flip(run{0..3}, 1, 2) = %v held in %T: Validate() = %v", b.ToArray(), b.highlowcontainer.containers[0], err)
	}
}
