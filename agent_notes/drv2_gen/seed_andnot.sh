#!/bin/sh
# usage: seed_andnot.sh <seed id | none> [extra rvc args]: Bitmap.AndNot with the tail-focused contract variant on the original tree (none) or a seeded tree
set -e
S=/var/tmp/drv2seed_$1
rm -rf $S; mkdir -p $S
rsync -a --exclude .git /repo/ $S/
if [ "$1" != "none" ]; then (cd $S && patch -p1 < /verif/seeded/$1/patch.diff >/dev/null); fi
python3 /verif/agent_notes/drv2_gen/strip_andnot.py $S/zz_bitmapdrv_verif.go
shift
cd /verif && ./bin/rvc verify -repo $S -x -f roaring.Bitmap.AndNot "$@" 2>&1
rm -rf $S
