#!/bin/sh
# usage: seed.sh <seed id> <key> [extra rvc args]  -- verifies <key> on a scratch copy of /repo with the seeded mistake applied (my generated contract file included)
set -e
S=/var/tmp/drv2seed
rm -rf $S; mkdir -p $S
rsync -a --exclude .git /repo/ $S/
(cd $S && patch -p1 < /verif/seeded/$1/patch.diff >/dev/null)
if [ -n "$NOVIEW" ]; then NOVIEW=1 SKIP_ADDRANGE=$SKIP_ADDRANGE python3 /verif/agent_notes/drv2_gen/gen.py $S/zz_bitmapdrv2_verif.go; fi
K=$2; shift 2
cd /verif && ./bin/rvc verify -repo $S -x -f "$K" "$@" 2>&1
rm -rf $S
