#!/usr/bin/env python3
# adds per-branch assertion cuts to the contract of Bitmap.AndNot in zz_bitmapdrv_verif.go (agent w-drv2).
# For every invariant of loop 1 (merge loop) a cut with the same formula (s1, s2 replaced by the table cells they cache) is placed at the end of each of the three
# branches of the loop body; for every invariant of loop 2 (tail loop) a cut is placed before each `break main`. Cut lemmas carry the tag of the invariant.
import sys, re
path = sys.argv[1] if len(sys.argv) > 1 else "/repo/zz_bitmapdrv_verif.go"
src = open(path).read()
# strip a previously generated section
src = re.sub(r"// BEGIN generated cuts \(gen_andnot.py\)\n.*?// END generated cuts\n", "", src, flags=re.S)
lines = src.split("\n")
inv = {1: [], 2: []}
for ln in lines:
    m = re.match(r"//@   loop ([12]) invariant (.*)$", ln)
    if m:
        body = m.group(2)
        t = re.match(r"@(\S+) (.*)$", body)
        tag, f = (t.group(1), t.group(2)) if t else ("", body)
        inv[int(m.group(1))].append((tag, f))
S1 = "rb.highlowcontainer.keys[pos1]"
S2 = "x2.highlowcontainer.keys[pos2]"
def subst(f):
    f = re.sub(r"\bs1 == rb\.highlowcontainer\.keys\[pos1\] && s2 == x2\.highlowcontainer\.keys\[pos2\]", "true", f)
    f = re.sub(r"\bs1\b", S1, f)
    f = re.sub(r"\bs2\b", S2, f)
    return f
tags = []
for k in (1, 2):
    for tag, f in inv[k]:
        if tag not in tags: tags.append(tag)
def lname(tag):
    base = tag.split(":")[0] if tag else "u"
    return "lemma_an_" + re.sub(r"[^A-Za-z0-9]", "", base)
gen = ["// BEGIN generated cuts (gen_andnot.py)"]
seen = set()
procs, contracts = [], []
for tag in tags:
    n = lname(tag)
    if n in seen: continue
    seen.add(n)
    procs.append("func %s(p bool) {}" % n)
    contracts += ["//@ contract %s" % n, "//@   lemma", "//@   requires %sp" % (("@" + tag + " ") if tag else ""), "//@   ensures p", "//@   modifies nothing"]
anchors1 = ['after "if (pos1 == length1) || (pos2 == length2) {"', 'after "if pos1 == length1 {"', 'after "if pos2 == length2 {"']
hints = []
for a in anchors1:
    for tag, f in inv[1]:
        hints.append("//@   %s apply %s(%s)" % (a, lname(tag), subst(f)))
for tag, f in inv[2]:
    hints.append('//@   before "break main" apply %s(%s)' % (lname(tag), f))
gen += procs + [""] + contracts + ["// END generated cuts", ""]
# insert the lemma definitions before the contract block and the hint lines right after the contract header
out = []
for ln in lines:
    if re.match(r"//@   (after|before) \"(if \(pos1 == length1\)|if pos1 == length1|if pos2 == length2|break main)", ln):
        continue   # old generated hints
    if ln.startswith("//@ contract Bitmap.AndNot"):
        out += gen
        out.append(ln)
        out += hints
        continue
    out.append(ln)
open(path, "w").write("\n".join(out))
