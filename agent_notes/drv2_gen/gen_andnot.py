#!/usr/bin/env python3
# adds per-branch assertion cuts to the contract of Bitmap.AndNot in zz_bitmapdrv_verif.go (agent w-drv2).
# For every invariant of loop 1 (merge loop) a cut with the same formula (s1, s2 replaced by the table cells they cache) is placed at the end of each of the three
# branches of the loop body; for every invariant of loop 2 (tail loop) a cut is placed before each `break main`. Cut lemmas carry the tag of the invariant.
import sys, re
path = sys.argv[1] if len(sys.argv) > 1 else "/repo/zz_bitmapdrv_verif.go"
src = open(path).read()
# strip a previously generated section
src = re.sub(r"// BEGIN generated cuts \(gen_andnot.py\)\n.*?// END generated cuts\n", "", src, flags=re.S)
lines = src.split("\n")
inv = {1: [], 2: []}
for ln in lines:
    m = re.match(r"//@   loop ([12]) invariant (.*)$", ln)
    if m:
        body = m.group(2)
        t = re.match(r"@(\S+) (.*)$", body)
        tag, f = (t.group(1), t.group(2)) if t else ("", body)
        inv[int(m.group(1))].append((tag, f))
S1 = "rb.highlowcontainer.keys[pos1]"
S2 = "x2.highlowcontainer.keys[pos2]"
def subst(f):
    f = re.sub(r"\bs1 == rb\.highlowcontainer\.keys\[pos1\] && s2 == x2\.highlowcontainer\.keys\[pos2\]", "true", f)
    f = re.sub(r"\bs1\b", S1, f)
    f = re.sub(r"\bs2\b", S2, f)
    return f
tags = []
for k in (1, 2):
    for tag, f in inv[k]:
        if tag not in tags: tags.append(tag)
def lname(tag):
    base = tag.split(":")[0] if tag else "u"
    return "lemma_an_" + re.sub(r"[^A-Za-z0-9]", "", base)
gen = ["// BEGIN generated cuts (gen_andnot.py)"]
seen = set()
procs, contracts = [], []
for tag in tags:
    n = lname(tag)
    if n in seen: continue
    seen.add(n)
    procs.append("func %s(p bool) {}" % n)
    contracts += ["//@ contract %s" % n, "//@   lemma", "//@   requires %sp" % (("@" + tag + " ") if tag else ""), "//@   ensures p", "//@   modifies nothing"]
anchors1 = ['after "if (pos1 == length1) || (pos2 == length2) {"', 'after "if pos1 == length1 {"', 'after "if pos2 == length2 {"']
hints = []
for a in anchors1:
    for tag, f in inv[1]:
        hints.append("//@   %s apply %s(%s)" % (a, lname(tag), subst(f)))
for tag, f in inv[2]:
    hints.append('//@   before "break main" apply %s(%s)' % (lname(tag), f))
# helper cuts around the two replaceKeyAndContainerAtIndex calls (witness pinning: source slot pos1 is the ONLY slot carrying the key s1; the written slot
# intersectionsize carries exactly the triple of source slot pos1; the slots below intersectionsize are untouched by the write)
RK, RC, RF, XK = "rb.highlowcontainer.keys", "rb.highlowcontainer.containers", "rb.highlowcontainer.needCopyOnWrite", "x2.highlowcontainer.keys"
keepbody = "(%s[j] == old(%s[i]) && !mem(%s, %s[j]) ==> %s[j] == old(%s[i]) && %s[j] == old(%s[i]))" % (RK, RK, XK, RK, RC, RC, RF, RF)
ownbody = "(%s[j] == old(%s[i]) && mem(%s, %s[j]) ==> !%s[j] && (fresh(%s[j]) || (%s[j] == old(%s[i]) && !old(%s[i]))))" % (RK, RK, XK, RK, RF, RC, RC, RC, RF)
U = "forall i in 0..length1 :: old(%s[i]) == s1 ==> i == pos1" % RK
K1 = "forall j in 0..intersectionsize :: forall i in 0..length1 :: " + keepbody
O1 = "forall j in 0..intersectionsize :: forall i in 0..length1 :: " + ownbody
KS1 = "forall j in 0..intersectionsize :: exists i in 0..pos1 :: old(%s[i]) == %s[j]" % (RK, RK)
KC1 = "forall i in 0..pos1 :: !mem(%s, old(%s[i])) ==> mem(%s[:intersectionsize], old(%s[i]))" % (XK, RK, RK, RK)
B2 = "rb.highlowcontainer.replaceKeyAndContainerAtIndex(intersectionsize, s1, c1, mustCopyOnWrite)"
B1 = "rb.highlowcontainer.replaceKeyAndContainerAtIndex(intersectionsize, s1, diff, false)"
G1 = "c1 := rb.highlowcontainer.getWritableContainerAtIndex(pos1)"
D1 = "diff := c1.iandNot(c2)"
helper = [
 '//@   before "%s" apply lemma_an_ord(%s)' % (B2, U),
 '//@   before "%s" apply lemma_an_fr(s1 == old(%s[pos1]) && c1 == old(%s[pos1]) && mustCopyOnWrite == old(%s[pos1]) && intersectionsize <= pos1 && pos1 < length1)' % (B2, RK, RC, RF),
 '//@   before "%s" apply lemma_an_ord(!mem(%s, s1))' % (B2, XK),
 '//@   after "%s" apply lemma_an_keep(%s)' % (B2, K1),
 '//@   after "%s" apply lemma_an_own(%s)' % (B2, O1),
 '//@   after "%s" apply lemma_an_fr(%s[intersectionsize] == old(%s[pos1]) && %s[intersectionsize] == old(%s[pos1]) && %s[intersectionsize] == old(%s[pos1]))' % (B2, RK, RK, RC, RC, RF, RF),
 '//@   after "%s" apply lemma_an_ks(%s)' % (B2, KS1),
 '//@   after "%s" apply lemma_an_kc(%s)' % (B2, KC1),
 '//@   before "%s" apply lemma_an_ord(%s)' % (G1, U),
 '//@   before "%s" apply lemma_an_fr(s1 == old(%s[pos1]) && intersectionsize <= pos1 && pos1 < length1)' % (G1, RK),
 '//@   before "%s" apply lemma_an_ord(mem(%s, s1))' % (G1, XK),
 '//@   after "%s" apply lemma_an_keep(%s)' % (D1, K1),
 '//@   after "%s" apply lemma_an_own(%s)' % (D1, O1),
 '//@   after "%s" apply lemma_an_own(fresh(diff) || (diff == old(%s[pos1]) && !old(%s[pos1])))' % (D1, RC, RF),
 '//@   after "%s" apply lemma_an_keep(%s)' % (B1, K1),
 '//@   after "%s" apply lemma_an_own(%s)' % (B1, O1),
 '//@   after "%s" apply lemma_an_own(%s[intersectionsize] == old(%s[pos1]) && !%s[intersectionsize] && (fresh(%s[intersectionsize]) || (%s[intersectionsize] == old(%s[pos1]) && !old(%s[pos1]))))' % (B1, RK, RK, RF, RC, RC, RC, RF),
 '//@   after "%s" apply lemma_an_ks(%s)' % (B1, KS1),
 '//@   after "%s" apply lemma_an_kc(%s)' % (B1, KC1),
]
import os
if os.environ.get('ANHELP'): hints = helper + hints   # (witness-pinning helper cuts: tried, no gain, doubled the run time: off by default)
gen += procs + [""] + contracts + ["// END generated cuts", ""]
# insert the lemma definitions before the contract block and the hint lines right after the contract header
out = []
for ln in lines:
    if re.match(r"//@   (after|before) \"(if \(pos1 == length1\)|if pos1 == length1|if pos2 == length2|break main|rb\.highlowcontainer\.replaceKeyAndContainerAtIndex|c1 := rb\.highlowcontainer\.getWritableContainerAtIndex|diff := c1\.iandNot)", ln):
        continue   # old generated hints
    if ln.startswith("//@ contract Bitmap.AndNot"):
        out += gen
        out.append(ln)
        out += hints
        continue
    out.append(ln)
open(path, "w").write("\n".join(out))
