#!/usr/bin/env python3
# tail-focused variant of the AndNot contract for the seed comparison runs (same clauses for the structure/keep/own part; the view and the 64-bit caller clauses and the
# branch-end cuts of the merge loop are dropped to keep the four comparison runs short). usage: strip_andnot.py <zz_bitmapdrv_verif.go>
import sys, re
p = sys.argv[1]
out = []
for ln in open(p).read().split("\n"):
    if re.match(r'//@   (after|before) "(if \(pos1 == length1\)|if pos1 == length1|if pos2 == length2)', ln):
        continue
    if re.match(r'//@   ensures @(view|api64|apiview64|frame64) ', ln):
        continue
    out.append(ln)
open(p, "w").write("\n".join(out))
