#!/bin/sh
# usage: run.sh <keys> [extra rvc args]   -- regenerates the contract file into a scratch copy of /repo (without r64's trusted duplicates) and verifies there
set -e
S=/var/tmp/drv2s
mkdir -p $S
rsync -a --delete --exclude .git /repo/ $S/
NOVIEW=$NOVIEW python3 /verif/agent_notes/drv2_gen/gen.py $S/zz_bitmapdrv2_verif.go
python3 - $S/zz_bitmapapi_verif.go "$DROP" <<'PY'
import sys,re
p=sys.argv[1]; drop=[k for k in sys.argv[2].split(',') if k]
s=open(p).read()
for k in drop:
    # delete the block "//@ contract <k>" up to the next blank line
    s=re.sub(r"//@ contract "+re.escape(k)+r"\n(//.*\n)*", "", s, count=1)
open(p,'w').write(s)
PY
K=$1; shift
cd /verif && ./bin/rvc verify -repo $S -x -f "$K" "$@" 2>&1
