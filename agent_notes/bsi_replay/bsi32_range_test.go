package roaring

import "testing"

// Replay (agent bsi), finding BSI-F9: 32-bit BSI.CompareValue(RANGE, start, end) with a NEGATIVE start: for a non-negative stored value
// the start comparison is decided in the branch "bit of |start| set, plane bit clear", which ends with an unconditional `break` (the
// sibling branch has `if e.op != RANGE { break }`; the 64-bit twin guards both): the end comparison is never made, eq2 stays true and
// the column is reported whatever `end` is. Found by /verif/bounded/c20_bsi32_test.go. Run:
//   /verif/tools_replay.sh BitSliceIndexing /verif/agent_notes/bsi_replay/bsi32_range_test.go TestReplayBSI32Range

func TestReplayBSI32RangeNegativeStart(t *testing.T) {
	b := NewDefaultBSI()
	b.SetValue(0, 5)
	b.SetValue(1, -128)
	b.SetValue(2, 2)
	got := b.CompareValue(0, RANGE, -128, 3, nil).ToArray() // want the columns with -128 <= v <= 3: {1, 2}
	if len(got) != 2 || got[0] != 1 || got[1] != 2 {
		t.Errorf("CompareValue(RANGE, -128, 3) = %v, want [1 2] (column 0 holds 5 > 3)", got)
	}
}

// BSI-F11: CompareValue(EQ, v) compares magnitudes only when the signs differ (the constant is negated for the bit-serial comparison and
// the final `case EQ: if eq1` has no sign test, unlike LE / GE): EQ(-1) reports the columns holding +1.
func TestReplayBSI32EqIgnoresSign(t *testing.T) {
	b := NewDefaultBSI()
	b.SetValue(0, 1)
	b.SetValue(1, -5)
	got := b.CompareValue(0, EQ, -1, 0, nil).ToArray()
	if len(got) != 0 {
		t.Errorf("CompareValue(EQ, -1) = %v, want [] (column 0 holds +1, column 1 holds -5)", got)
	}
	got = b.CompareValue(0, EQ, 5, 0, nil).ToArray()
	if len(got) != 0 {
		t.Errorf("CompareValue(EQ, 5) = %v, want [] (column 1 holds -5)", got)
	}
}

// BSI-F10: MinMax over an index whose values are all 0 (auto-sized: no planes) returns the initial extreme.
func TestReplayBSI32MinMaxAllZero(t *testing.T) {
	b := NewDefaultBSI()
	b.SetValue(0, 0)
	if g := b.MinMax(0, MIN, nil); g != 0 {
		t.Errorf("MinMax(MIN) = %d, want 0", g)
	}
	if g := b.MinMax(0, MAX, nil); g != 0 {
		t.Errorf("MinMax(MAX) = %d, want 0", g)
	}
}

// BSI-F10 (cont.): MinMax with in-range data: a minimum whose planes are all set compares "equal" to the initial MaxInt64; negative
// values are mis-ordered.
func TestReplayBSI32MinMaxMore(t *testing.T) {
	b := NewDefaultBSI()
	b.SetValue(0, 127) // 7 planes, every plane set
	if g := b.MinMax(1, MIN, nil); g != 127 {
		t.Errorf("index {0:127}: MinMax(MIN) = %d, want 127", g)
	}
	c := NewDefaultBSI()
	c.SetValue(0, 1)
	c.SetValue(5, -1)
	if g := c.MinMax(1, MIN, nil); g != -1 {
		t.Errorf("index {0:1, 5:-1}: MinMax(MIN) = %d, want -1", g)
	}
	d := NewDefaultBSI()
	d.SetValue(0, -1)
	d.SetValue(5, 0)
	if g := d.MinMax(2, MAX, nil); g != 0 {
		t.Errorf("index {0:-1, 5:0}: MinMax(2, MAX) = %d, want 0", g)
	}
}

// BSI-F9 (cont.): RANGE with a positive interval reports a negative stored value.
func TestReplayBSI32RangeReportsNegative(t *testing.T) {
	b := NewDefaultBSI()
	b.SetValue(0, 127)
	b.SetValue(5, -1)
	got := b.CompareValue(1, RANGE, 5, 127, nil).ToArray()
	if len(got) != 1 || got[0] != 0 {
		t.Errorf("CompareValue(RANGE, 5, 127) = %v, want [0] (column 5 holds -1)", got)
	}
}
