package roaring

import "testing"

// Replay (agent bsi), finding BSI-F7: 32-bit BSI.ParOr with several arguments of different plane counts: for a plane index that a
// narrower argument does not have, the loop does `a[i] = []*roaring.Bitmap{roaring.NewBitmap()}`, which REPLACES the planes collected from
// the wider arguments processed before it: their bit i is lost. Found by /verif/bounded/c19_bsi32_test.go. Run:
//   /verif/tools_replay.sh BitSliceIndexing /verif/agent_notes/bsi_replay/bsi32_paror_test.go TestReplayBSI32ParOr

func TestReplayBSI32ParOrWideThenNarrow(t *testing.T) {
	wide := NewDefaultBSI()
	wide.SetValue(1, 1<<20)
	narrow := NewDefaultBSI()
	narrow.SetValue(5, 1)
	b := NewDefaultBSI()
	b.ParOr(0, wide, narrow) // disjoint columns
	if v, ok := b.GetValue(1); !ok || v != 1<<20 {
		t.Errorf("column 1: got (%d,%v), want (%d,true)", v, ok, 1<<20)
	}
	if v, ok := b.GetValue(5); !ok || v != 1 {
		t.Errorf("column 5: got (%d,%v), want (1,true)", v, ok)
	}
}
