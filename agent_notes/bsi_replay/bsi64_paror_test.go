package roaring64

import "testing"

// Replay (agent bsi), finding BSI-F6: roaring64 BSI.ParOr widens the receiver by appending EMPTY planes (no sign extension, unlike
// SetBigValue's widening), and ORs a narrower argument's planes position by position, so its sign plane lands on a magnitude position.
// Found by the bounded stand-in /verif/bounded/c19_bsi_test.go. Run:
//   /verif/tools_replay.sh roaring64 /verif/agent_notes/bsi_replay/bsi64_paror_test.go TestReplayBSI64ParOr

func TestReplayBSI64ParOrWidensWithoutSignExtension(t *testing.T) {
	b := NewDefaultBSI()
	b.SetValue(0, -1) // 2 planes
	x := NewDefaultBSI()
	x.SetValue(1, 1<<40) // 42 planes, disjoint column
	b.ParOr(0, x)
	if v, ok := b.GetValue(0); !ok || v != -1 {
		t.Errorf("receiver column 0 after ParOr with a wider index: got (%d,%v), want (-1,true)", v, ok)
	}
	if v, ok := b.GetValue(1); !ok || v != 1<<40 {
		t.Errorf("column 1: got (%d,%v), want (%d,true)", v, ok, int64(1)<<40)
	}
}

func TestReplayBSI64ParOrNarrowNegativeArgument(t *testing.T) {
	b := NewDefaultBSI()
	b.SetValue(0, 1<<40) // 42 planes
	x := NewDefaultBSI()
	x.SetValue(1, -5) // 4 planes, disjoint column
	b.ParOr(0, x)
	if v, ok := b.GetValue(1); !ok || v != -5 {
		t.Errorf("argument column 1 after ParOr into a wider index: got (%d,%v), want (-5,true)", v, ok)
	}
}

// BSI-F8: roaring64 BSI.ParOr on a run-optimized receiver with an argument that has fewer planes than the target width:
// `if b.runOptimized { a[i][0].RunOptimize() }` indexes the EMPTY list a[i].
func TestReplayBSI64ParOrRunOptimizedNarrowArgument(t *testing.T) {
	defer func() {
		if r := recover(); r != nil {
			t.Errorf("ParOr panics: %v", r)
		}
	}()
	b := NewDefaultBSI()
	b.SetValue(0, 1<<20)
	b.RunOptimize()
	x := NewDefaultBSI()
	x.SetValue(1, 1)
	b.ParOr(0, x)
	if v, ok := b.GetValue(1); !ok || v != 1 {
		t.Errorf("column 1: got (%d,%v), want (1,true)", v, ok)
	}
}
