package roaring

import "testing"

// F6 (same class as A-13/A-20): runContainer16.not returns the raw result of Not without choosing the cheapest
// representation: the static Flip of a run-optimised bitmap fails its own Validate().
func TestFindingF6StaticFlipNotNormalised(t *testing.T) {
	a := BitmapOf(0, 1, 2, 3)
	a.RunOptimize()
	b := Flip(a, 1, 2)
	if err := b.Validate(); err != nil {
		t.Fatalf("Flip(a,1,2).Validate() = %v", err)
	}
}
