package roaring64

import "testing"

// A-7 / A-5 (64-bit): ParOr with one non-empty bitmap returns that bitmap itself, and filters the caller's slice in place.
func TestFindingA07ParOrSingle(t *testing.T) {
	a := BitmapOf(1, 2, 3)
	r := ParOr(2, a, New())
	r.Add(77)
	if a.Contains(77) {
		t.Errorf("ParOr(2, a, empty) returned a itself")
	}
	x, e, y := BitmapOf(1), New(), BitmapOf(1<<40)
	list := []*Bitmap{x, e, y}
	ParOr(2, list...)
	if list[0] != x || list[1] != e || list[2] != y {
		t.Errorf("ParOr rearranged the caller's argument slice")
	}
}
