package roaring

import "testing"

// XF-1: bitmapContainer.addOffset returns bitmap containers whatever the cardinality of the halves:
// AddOffset64 of a valid bitmap gives a bitmap that fails Validate().
func TestXformFindingBitmapAddOffsetNorm(t *testing.T) {
	b := New()
	for v := uint32(0); v < 10000; v += 2 { // 5000 values, no runs: one bitmap container
		b.Add(v)
	}
	if err := b.Validate(); err != nil {
		t.Fatalf("source invalid: %v", err)
	}
	r := AddOffset64(b, 60000)
	for i, c := range r.highlowcontainer.containers {
		t.Logf("result chunk %d key %d type %T card %d", i, r.highlowcontainer.keys[i], c, c.getCardinality())
	}
	if r.GetCardinality() != 5000 {
		t.Fatalf("cardinality %d", r.GetCardinality())
	}
	if err := r.Validate(); err != nil {
		t.Fatalf("XF-1: AddOffset64 result fails Validate: %v", err)
	} else {
		t.Logf("result validates")
	}
	// container level
	bc := b.highlowcontainer.containers[0].(*bitmapContainer)
	lo, hi := bc.addOffset(60000)
	t.Logf("kernel: low %T card %d, high %T card %d", lo, lo.getCardinality(), hi, hi.getCardinality())
}
