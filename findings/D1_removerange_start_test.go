package roaring

import "testing"

// Finding D1: RemoveRange(start, end) with start >= 2^32 truncates start to 32 bits while end is clamped to 2^32:
// the range [start mod 2^32, 2^32) is removed although no 32-bit value lies in [start, end).
func TestReplayD1(t *testing.T) {
	rb := BitmapOf(1, 7, 100, 70000, 4294967295)
	rb.RemoveRange(uint64(1)<<32+5, uint64(1)<<32+10)
	t.Logf("cardinality after RemoveRange(2^32+5, 2^32+10) = %d (want 5), contains 7=%v 100=%v 70000=%v max=%v",
		rb.GetCardinality(), rb.Contains(7), rb.Contains(100), rb.Contains(70000), rb.Contains(4294967295))
	if rb.GetCardinality() != 5 {
		t.Fatalf("values removed by a range outside the 32-bit universe")
	}
}
