package roaring

import "testing"

// A-11: bitmapContainer.NextUnsetBit(i) shifts the word right and THEN inverts it, so the zeros shifted in at the top
// count as unset bits: for i%64 != 0 and bits i%64..63 of the word all set it returns the first position of the next
// word even when that position is present. Public witness: UnsetIterator yields a present value.
func TestFindingA11UnsetIteratorYieldsMember(t *testing.T) {
	b := NewBitmap()
	for i := 0; i < 5000; i++ {
		if i != 10 {
			b.Add(uint32(i)) // one bitmap chunk {0..4999} \ {10}
		}
	}
	bc, ok := b.highlowcontainer.getContainerAtIndex(0).(*bitmapContainer)
	if !ok {
		t.Skip("chunk is not a bitmap container")
	}
	if got := bc.NextUnsetBit(11); got != 5000 {
		t.Errorf("NextUnsetBit(11) = %d, want 5000 (the value returned is a member: %v)", got, bc.contains(uint16(got)))
	}
	it := b.UnsetIterator(0, 6000)
	for it.HasNext() {
		v := it.Next()
		if b.Contains(v) {
			t.Fatalf("UnsetIterator(0,6000) yielded %d, which is in the bitmap", v)
		}
	}
}
