package roaring

import (
	"bytes"
	"testing"
)

// F8: FrozenView keeps the key table as a view of the caller's buffer: removing a whole chunk shifts the keys in place and
// writes into the caller's bytes (property C08: a bitmap obtained from FrozenView never writes to the caller's slice).
func TestFindingF8FrozenViewWritesBuffer(t *testing.T) {
	src := BitmapOf(1, 65537, 131073, 196609)
	buf, err := src.Freeze()
	if err != nil {
		t.Fatal(err)
	}
	orig := append([]byte(nil), buf...)
	b := NewBitmap()
	if err := b.FrozenView(buf); err != nil {
		t.Fatal(err)
	}
	b.Remove(1) // removes chunk 0: removeAtIndex copies the remaining keys down
	if !bytes.Equal(buf, orig) {
		t.Fatalf("a mutation of the FrozenView bitmap wrote into the caller's buffer")
	}
}
