package roaring

import "testing"

// A-13 / A-20 / A-21: operations on run chunks return a run container without choosing the cheapest representation, so a
// bitmap built through the public API fails its own Validate() ("too many intervals relative to data").
func TestFindingA13RunRangeOps(t *testing.T) {
	b := NewBitmap()
	b.AddRange(0, 4)
	b.AddRange(10, 11)
	if err := b.Validate(); err != nil {
		t.Errorf("A-13: AddRange(0,4); AddRange(10,11): Validate() = %v", err)
	}
	c := NewBitmap()
	c.AddRange(0, 100)
	c.RemoveRange(10, 11)
	c.RemoveRange(20, 21)
	c.RemoveRange(30, 31)
	for i := uint64(40); i < 100; i += 2 {
		c.RemoveRange(i, i+1)
	}
	if err := c.Validate(); err != nil {
		t.Errorf("A-13: RemoveRange on a run chunk: Validate() = %v", err)
	}
}

func TestFindingA20RunOrRun(t *testing.T) {
	a, b := NewBitmap(), NewBitmap()
	for k := uint64(0); k < 2000; k++ {
		a.AddRange(8*k, 8*k+3)
		b.AddRange(8*k+4, 8*k+7)
	}
	a.RunOptimize()
	b.RunOptimize()
	if a.Validate() != nil || b.Validate() != nil {
		t.Skip("operands do not validate")
	}
	if err := Or(a, b).Validate(); err != nil {
		t.Errorf("A-20: Or(a,b).Validate() = %v", err)
	}
	if err := FastOr(a, b).Validate(); err != nil {
		t.Errorf("A-20: FastOr(a,b).Validate() = %v", err)
	}
}

func TestFindingA21AddOffset(t *testing.T) {
	a := NewBitmap()
	a.AddRange(0, 3)
	a.AddRange(65534, 65540)
	a.RunOptimize()
	if a.Validate() != nil {
		t.Skip("operand does not validate")
	}
	for _, d := range []int64{-1, 1, 65535, -65535, 2} {
		r := AddOffset64(a, d)
		if err := r.Validate(); err != nil {
			t.Errorf("A-21: AddOffset64(a,%d).Validate() = %v", d, err)
		}
	}
}
