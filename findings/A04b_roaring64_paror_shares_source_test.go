package roaring64

import "testing"

// A-4 (64-bit): iorOnRange inserts the source's bucket into the accumulator, flagging only the accumulator's slot.
func TestFindingA04bParOrSharesSource(t *testing.T) {
	a, b, c := BitmapOf(1, 2<<32+1), BitmapOf(5<<32+1, 9<<32), BitmapOf(1<<32+4)
	r := ParOr(1, a, b, c)
	c.Add(1<<32 + 9)
	if r.Contains(1<<32 + 9) {
		t.Fatalf("ParOr result changed when an input was modified afterwards")
	}
}
