package roaring

import "testing"

// F2 through the public API: ParOr of (a, b, c) where a holds a full run chunk at key 1 that is already flagged
// copy-on-write (a was cloned under SetCopyOnWrite), b has no key 1 and c has key 1.
func TestReplayF2Public(t *testing.T) {
	a := New()
	a.SetCopyOnWrite(true)
	a.AddRange(1<<16, 2<<16)
	a.Add(5 << 16)
	a.RunOptimize()
	keep := a.Clone() // flags every chunk of a as shared
	_ = keep
	b := BitmapOf(3<<16 + 1)
	c := BitmapOf(1<<16+9, 4<<16)
	r := ParOr(2, a, b, c)
	want := a.GetCardinality()
	r.Remove(1<<16 + 7)
	if !a.Contains(1<<16+7) || !keep.Contains(1<<16+7) {
		t.Errorf("INTERFERENCE: inputs changed after r.Remove(65543): a has it=%v (card %d, want %d), its earlier clone has it=%v",
			a.Contains(1<<16+7), a.GetCardinality(), want, keep.Contains(1<<16+7))
	}
}
