package roaring

// F9: ParOr splits the key range into parallelism*4 chunks; a chunk that would start beyond the highest key got a 16-bit
// start that wrapped around at the top of the key space, so containers were unioned twice and appended out of order.


import "testing"

func TestFindingF9ParOrTopOfKeySpace(t *testing.T) {
	for _, par := range []int{0, 1, 2, 3, 4, 7} {
		for _, lo := range []uint32{65000, 65531, 65534, 0, 40000} {
			a, b, c := NewBitmap(), NewBitmap(), NewBitmap()
			for k := lo; k <= 65535; k += 7 {
				a.Add(k<<16 | 5)
				if k%2 == 0 {
					b.Add(k<<16 | 9)
				}
				if k%3 == 0 {
					c.Add(k<<16 | 11)
				}
			}
			a.Add(65535<<16 | 1)
			b.Add(65535<<16 | 2)
			want := Or(Or(a, b), c)
			got := ParOr(par, a, b, c)
			if !got.Equals(want) {
				t.Errorf("par=%d lo=%d: ParOr differs: got %d want %d values", par, lo, got.GetCardinality(), want.GetCardinality())
			}
			got2 := ParHeapOr(par, a, b, c)
			if !got2.Equals(want) {
				t.Errorf("par=%d lo=%d: ParHeapOr differs", par, lo)
			}
			gotA := ParAnd(par, a, b, c)
			wantA := And(And(a, b), c)
			if !gotA.Equals(wantA) {
				t.Errorf("par=%d lo=%d: ParAnd differs", par, lo)
			}
		}
	}
}
