package roaring

import "testing"

// A-14: a bitmap chunk holding exactly 4096 values passes validate(), although the format (and this
// library's own writer) require more than 4096 for a bitmap chunk.
func TestReplayA14(t *testing.T) {
	bc := newBitmapContainer()
	for i := 0; i < 4096; i++ {
		bc.iadd(uint16(i * 3))
	}
	if bc.cardinality != 4096 {
		t.Fatal("setup")
	}
	if err := bc.validate(); err == nil {
		t.Fatalf("bitmapContainer with cardinality 4096 validates (want an error: bitmap chunks hold more than 4096 values)")
	}
}
