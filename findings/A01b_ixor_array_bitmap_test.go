package roaring

import "testing"

// A-1 (array variant): arrayContainer.ixorBitmap computes `value2.ixor(ac)`: the in-place XOR is applied to the
// ARGUMENT's bitmap chunk. Public witness: a.Xor(b) with an array chunk in a and a bitmap chunk in b modifies b.
func TestFindingA01bXorModifiesArgument(t *testing.T) {
	a := BitmapOf(1, 2, 3, 70000)
	b := NewBitmap()
	for i := 20000; i < 30000; i++ {
		b.Add(uint32(i))
	}
	want := b.Clone()
	a.Xor(b)
	if !b.Equals(want) {
		t.Fatalf("a.Xor(b) modified its argument: b has %d values, had %d", b.GetCardinality(), want.GetCardinality())
	}
	a.Remove(25000)
	if !b.Contains(25000) {
		t.Fatalf("a and b share storage after a.Xor(b)")
	}
}
