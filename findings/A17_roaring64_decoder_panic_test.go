package roaring64

import (
	"bytes"
	"testing"
)

// A-17: the 64-bit decoders size their tables from the untrusted 64-bit bucket count: count 2^64-1 makes int(size)
// negative (slice bounds panic), count 2^62 makes make() panic. Expected: an error return, never a panic.
func TestFindingA17DecoderPanics(t *testing.T) {
	inputs := [][]byte{
		{0xFF, 0xFF, 0xFF, 0xFF, 0xFF, 0xFF, 0xFF, 0xFF},
		{0, 0, 0, 0, 0, 0, 0, 0x40},
		{0, 0, 0, 0, 1, 0, 0, 0}, // 2^32 buckets announced, no data
	}
	for _, in := range inputs {
		for name, f := range map[string]func([]byte) error{
			"ReadFrom":        func(b []byte) error { _, err := New().ReadFrom(bytes.NewReader(b)); return err },
			"FromUnsafeBytes": func(b []byte) error { _, err := New().FromUnsafeBytes(b); return err },
			"UnmarshalBinary": func(b []byte) error { return New().UnmarshalBinary(b) },
		} {
			func() {
				defer func() {
					if r := recover(); r != nil {
						t.Errorf("%s(% x) panicked: %v", name, in, r)
					}
				}()
				if err := f(in); err == nil {
					t.Errorf("%s(% x) returned no error", name, in)
				}
			}()
		}
	}
}
