package roaring

import "testing"

// A-1: runContainer16.ixorBitmap computes `value2.ixor(rc)`: the in-place XOR is applied to the ARGUMENT's
// bitmap chunk, which is then also stored in the receiver. Public witness: a.Xor(b) modifies b.
func TestFindingA01XorModifiesArgument(t *testing.T) {
	a := NewBitmap()
	a.AddRange(0, 10000)
	a.RunOptimize() // chunk 0 of a: run container
	b := NewBitmap()
	for i := 20000; i < 30000; i++ {
		b.Add(uint32(i)) // chunk 0 of b: bitmap container (10000 values)
	}
	want := b.Clone()
	a.Xor(b)
	if !b.Equals(want) {
		t.Fatalf("a.Xor(b) modified its argument: b has %d values, had %d", b.GetCardinality(), want.GetCardinality())
	}
	if a.GetCardinality() != 20000 {
		t.Fatalf("a has %d values, want 20000", a.GetCardinality())
	}
	a.Remove(25000)
	if !b.Contains(25000) {
		t.Fatalf("a and b share storage after a.Xor(b)")
	}
}
