package roaring

import "testing"

// A-12: NextAbsentValue / PreviousAbsentValue return present values or values on the wrong side of the target.
// Kernel defects: bitmapContainer.nextAbsentValue inverts AFTER shifting (bitmapcontainer.go ~1415) and returns -1 as
// its "none" sentinel while Bitmap.NextAbsentValue tests for 65536; bitmapContainer.previousAbsentValue reads wrapped
// high bits and scans forward. Driver defects: combineLoHi32 applied to an already shifted key, gap test.
func absentRef(b *Bitmap, t uint32, next bool) int64 {
	v := int64(t)
	for v >= 0 && v <= 0xFFFFFFFF {
		if !b.Contains(uint32(v)) {
			return v
		}
		if next {
			v++
		} else {
			v--
		}
	}
	return -1
}

func TestFindingA12AbsentValues(t *testing.T) {
	dense := func(vals ...[2]uint32) *Bitmap { // one bitmap chunk: 10000..15000 plus the given ranges [a,b]
		b := NewBitmap()
		for i := uint32(10000); i <= 15000; i++ {
			b.Add(i)
		}
		for _, r := range vals {
			for i := r[0]; i <= r[1]; i++ {
				b.Add(i)
			}
		}
		return b
	}
	bad := 0
	check := func(name string, b *Bitmap, target uint32) {
		if got, want := b.NextAbsentValue(target), absentRef(b, target, true); got != want {
			t.Errorf("%s: NextAbsentValue(%d) = %d, want %d", name, target, got, want)
			bad++
		}
		if got, want := b.PreviousAbsentValue(target), absentRef(b, target, false); got != want {
			t.Errorf("%s: PreviousAbsentValue(%d) = %d, want %d", name, target, got, want)
			bad++
		}
	}
	check("bitmap chunk {1..64}", dense([2]uint32{1, 64}), 1)
	check("bitmap chunk {60000..65535}", dense([2]uint32{60000, 65535}), 60000)
	check("bitmap chunk {59968..65535}", dense([2]uint32{59968, 65535}), 59968)
	check("bitmap chunk {63,64}", dense([2]uint32{63, 64}), 64)
	check("bitmap chunk {0..5,60..63}", dense([2]uint32{0, 5}, [2]uint32{60, 63}), 5)
	check("bitmap chunk {64..127}", dense([2]uint32{64, 127}), 100)
	check("array chunk in key 1", BitmapOf(65541), 65541)
	check("array chunk {65534,65535}", BitmapOf(65534, 65535), 65534)
	if bad == 0 {
		t.Log("no disagreement")
	}
}
