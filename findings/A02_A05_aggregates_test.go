package roaring

import "testing"

// A-2: HeapOr / HeapXor of a single bitmap return that bitmap itself.
func TestFindingA02HeapSingle(t *testing.T) {
	a := BitmapOf(1, 2, 3)
	r := HeapOr(a)
	r.Add(99)
	if a.Contains(99) {
		t.Errorf("HeapOr(a) returned a itself: a changed after r.Add(99)")
	}
	b := BitmapOf(1, 2, 3)
	x := HeapXor(b)
	x.Add(98)
	if b.Contains(98) {
		t.Errorf("HeapXor(b) returned b itself: b changed after x.Add(98)")
	}
}

// A-5: ParOr filters empty bitmaps in place, overwriting the caller's slice.
func TestFindingA05ParOrClobbersSlice(t *testing.T) {
	a, e, b := BitmapOf(1), NewBitmap(), BitmapOf(1<<20)
	list := []*Bitmap{a, e, b}
	ParOr(2, list...)
	if list[0] != a || list[1] != e || list[2] != b {
		t.Errorf("ParOr rearranged the caller's argument slice")
	}
}
