package roaring

// Replay tests for the findings of agent w-serial (run: /verif/tools_replay.sh . /verif/agent_notes/serial_replay/serial_replay_test.go 'TestSerialReplay').
// Each test FAILS on the defective code (it states the expected behaviour).

import (
	"bytes"
	"errors"
	"testing"
)

// F1: MustReadFrom must return what ReadFrom returned (count and error).
func TestSerialReplayF1MustReadFromCount(t *testing.T) {
	src := BitmapOf(1, 2, 3, 100000)
	data, err := src.ToBytes()
	if err != nil {
		t.Fatal(err)
	}
	want, err := NewBitmap().ReadFrom(bytes.NewReader(data))
	if err != nil {
		t.Fatal(err)
	}
	got, err := NewBitmap().MustReadFrom(bytes.NewReader(data))
	if err != nil {
		t.Fatal(err)
	}
	if got != want {
		t.Fatalf("MustReadFrom returned count %d, ReadFrom returned %d (documented: calls ReadFrom internally)", got, want)
	}
}

// F1: a decoding error must be returned, not turned into a nil dereference inside Validate.
func TestSerialReplayF1MustReadFromTruncated(t *testing.T) {
	src := BitmapOf(1, 2, 3)
	data, err := src.ToBytes()
	if err != nil {
		t.Fatal(err)
	}
	trunc := data[:len(data)-2] // header says 1 chunk, payload cut short
	if _, err := NewBitmap().ReadFrom(bytes.NewReader(trunc)); err == nil {
		t.Fatal("ReadFrom accepted a truncated image")
	}
	defer func() {
		if r := recover(); r != nil {
			if _, isErr := r.(error); !isErr {
				t.Fatalf("MustReadFrom panicked with a non-validation value: %v", r)
			}
			var re interface{ RuntimeError() }
			if e, ok := r.(error); ok && errors.As(e, &re) {
				t.Fatalf("MustReadFrom: runtime error instead of the decoding error: %v", r)
			}
		}
	}()
	_, err = NewBitmap().MustReadFrom(bytes.NewReader(trunc))
	if err == nil {
		t.Fatal("MustReadFrom returned err == nil for a truncated image (ReadFrom's error was discarded)")
	}
}

// failAfter accepts `limit` bytes in total, then reports an error (a legal io.Writer: n < len(p) ==> err != nil).
type failAfter struct {
	limit   int
	written int
}

func (f *failAfter) Write(p []byte) (int, error) {
	room := f.limit - f.written
	if room >= len(p) {
		f.written += len(p)
		return len(p), nil
	}
	if room < 0 {
		room = 0
	}
	f.written += room
	return room, errors.New("disk full")
}

// F2: WriteTo (io.WriterTo) must return the number of bytes written, error or not.
func TestSerialReplayF2WriteToCountOnError(t *testing.T) {
	rb := BitmapOf(1, 2, 3, 100000, 200000)
	for _, limit := range []int{3, 35} { // 3: inside the header write (32 bytes); 35: inside the first chunk payload
		w := &failAfter{limit: limit}
		n, err := rb.WriteTo(w)
		if err == nil {
			t.Fatalf("limit %d: expected an error", limit)
		}
		if int(n) != w.written {
			t.Errorf("limit %d: WriteTo returned n = %d, the writer accepted %d bytes", limit, n, w.written)
		}
	}
}
