package roaring

import (
	"bytes"
	"encoding/binary"
	"testing"
)

// A-8: runContainer16.validate does not check that start+length stays within 0..65535. A portable stream whose run
// [65000, +1000] wraps past the chunk is decoded without error and passes Validate(), but the resulting bitmap is not a
// set: its cardinality (1001) disagrees with its membership test and its iteration.
func TestFindingA08RunWrapValidates(t *testing.T) {
	b := NewBitmap()
	b.AddRange(65000, 65536)
	b.RunOptimize()
	data, err := b.ToBytes()
	if err != nil {
		t.Fatal(err)
	}
	// the stream ends with the single run (start uint16, length-1 uint16): make it 65000..66000
	binary.LittleEndian.PutUint16(data[len(data)-2:], 1000)
	// the cardinality-minus-one field of the chunk (bytes 7..8 after cookie(4) + run flags(1) + key(2))
	binary.LittleEndian.PutUint16(data[7:], 1000)
	c := NewBitmap()
	if _, err := c.ReadFrom(bytes.NewReader(data)); err != nil {
		t.Skipf("decoder rejected the stream: %v", err)
	}
	if err := c.Validate(); err != nil {
		return // rejected: fine
	}
	n := 0
	c.Iterate(func(x uint32) bool { n++; return true })
	if uint64(n) != c.GetCardinality() || !c.Contains(65100) {
		t.Fatalf("Validate() == nil but: cardinality %d, iterated %d values, Contains(65100) = %v, Maximum = %d",
			c.GetCardinality(), n, c.Contains(65100), c.Maximum())
	}
}
