package roaring

import (
	"testing"

	"github.com/RoaringBitmap/roaring/v2"
)

// Replay (agent bsi): BSI.UnmarshalBinary (32-bit BSI) on byte-slice lists with an EMPTY entry before a non-empty one.
// The loop skips empty entries WITHOUT growing b.bA, then appends at most one plane and indexes b.bA[i-1].
// Run: /verif/tools_replay.sh BitSliceIndexing /verif/agent_notes/bsi_replay/bsi32_unmarshal_test.go TestReplayBSI32

func TestReplayBSI32UnmarshalSkippedPlane(t *testing.T) {
	defer func() {
		if r := recover(); r != nil {
			t.Errorf("UnmarshalBinary panics instead of returning an error / reading the planes: %v", r)
		}
	}()
	bm := roaring.NewBitmap()
	bm.Add(7)
	raw, err := bm.MarshalBinary()
	if err != nil {
		t.Fatal(err)
	}
	b := NewDefaultBSI()
	// existence bitmap, plane 0 absent (empty item), plane 1 present
	if err := b.UnmarshalBinary([][]byte{raw, {}, raw}); err != nil {
		t.Logf("error returned: %v", err)
	}
}

func TestReplayBSI32UnmarshalNoItems(t *testing.T) {
	defer func() {
		if r := recover(); r != nil {
			t.Errorf("UnmarshalBinary(empty list) panics: %v", r)
		}
	}()
	b := NewDefaultBSI()
	_ = b.UnmarshalBinary([][]byte{})
}
