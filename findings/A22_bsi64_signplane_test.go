package roaring64

import (
	"io"
	"testing"
)

var bsiEOF = io.EOF

// Replay tests for the BSI64 sign-plane findings (agent bsi). Expected (property C19): Clone / NewBSIRetainSet /
// MarshalBinary+UnmarshalBinary yield an index that holds the same column->value map, negative values included.
// Run: /verif/tools_replay.sh roaring64 /verif/agent_notes/bsi_replay/bsi64_signplane_test.go

func bsiReplayFixture() *BSI {
	b := NewDefaultBSI()
	b.SetValue(1, -5)
	b.SetValue(2, 3)
	b.SetValue(7, -1)
	return b
}

func bsiReplayCheck(t *testing.T, what string, c *BSI) {
	t.Helper()
	for _, p := range []struct {
		col uint64
		val int64
	}{{1, -5}, {2, 3}, {7, -1}} {
		got, ok := c.GetValue(p.col)
		if !ok || got != p.val {
			t.Errorf("%s: column %d: got (%d,%v), want (%d,true)", what, p.col, got, ok, p.val)
		}
	}
}

func TestReplayBSI64CloneKeepsSignPlane(t *testing.T) {
	b := bsiReplayFixture()
	bsiReplayCheck(t, "original", b)
	c := b.Clone()
	bsiReplayCheck(t, "Clone", c)
	if !b.Equals(c) {
		t.Errorf("Clone: b.Equals(clone) == false")
	}
}

func TestReplayBSI64RetainSetKeepsSignPlane(t *testing.T) {
	b := bsiReplayFixture()
	fs := NewBitmap()
	fs.Add(1)
	fs.Add(2)
	fs.Add(7)
	c := b.NewBSIRetainSet(fs)
	bsiReplayCheck(t, "NewBSIRetainSet", c)
}

func TestReplayBSI64MarshalKeepsSignPlane(t *testing.T) {
	b := bsiReplayFixture()
	data, err := b.MarshalBinary()
	if err != nil {
		t.Fatal(err)
	}
	if len(data) != len(b.bA)+1 {
		t.Errorf("MarshalBinary: %d byte slices for existence bitmap + %d planes (want %d)", len(data), len(b.bA), len(b.bA)+1)
	}
	c := NewDefaultBSI()
	if err := c.UnmarshalBinary(data); err != nil {
		t.Fatal(err)
	}
	bsiReplayCheck(t, "Marshal/UnmarshalBinary", c)
	if !b.Equals(c) {
		t.Errorf("Marshal/UnmarshalBinary: b.Equals(roundtrip) == false")
	}
}

func TestReplayBSI64WriteToReadFromKeepsSignPlane(t *testing.T) {
	// control: the stream format carries every plane
	b := bsiReplayFixture()
	var buf bsiReplayBuf
	if _, err := b.WriteTo(&buf); err != nil {
		t.Fatal(err)
	}
	c := NewDefaultBSI()
	if _, err := c.ReadFrom(&buf); err != nil {
		t.Fatal(err)
	}
	bsiReplayCheck(t, "WriteTo/ReadFrom", c)
}

type bsiReplayBuf struct {
	data []byte
	pos  int
}

func (w *bsiReplayBuf) Write(p []byte) (int, error) { w.data = append(w.data, p...); return len(p), nil }
func (w *bsiReplayBuf) Read(p []byte) (int, error) {
	if w.pos >= len(w.data) {
		return 0, ioEOFReplay()
	}
	n := copy(p, w.data[w.pos:])
	w.pos += n
	return n, nil
}

func ioEOFReplay() error { return bsiEOF }

// An index without planes (documented as legal for FromBitmaps: "Panics if len(bms) < 1" only; also what ReadFrom leaves
// after a stream that holds only the existence bitmap).
func bsiReplayNoPlanes() *BSI {
	b := &BSI{}
	b.FromBitmaps([]Bitmap{{}})
	return b
}

func TestReplayBSI64MarshalNoPlanes(t *testing.T) {
	defer func() {
		if r := recover(); r != nil {
			t.Errorf("MarshalBinary of an index without planes panics: %v", r)
		}
	}()
	b := bsiReplayNoPlanes()
	if _, err := b.MarshalBinary(); err != nil {
		t.Fatal(err)
	}
}

func TestReplayBSI64SetValueNoPlanes(t *testing.T) {
	defer func() {
		if r := recover(); r != nil {
			t.Errorf("SetValue on an index without planes panics: %v", r)
		}
	}()
	b := bsiReplayNoPlanes()
	b.SetValue(1, 5)
	if v, ok := b.GetValue(1); !ok || v != 5 {
		t.Errorf("got (%d,%v), want (5,true)", v, ok)
	}
}
