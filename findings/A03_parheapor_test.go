package roaring

import "testing"

// A-3: ParHeapOr forwards a container that occurs in only one input into the result without cloning or flagging it.
func TestFindingA03ParHeapOrShares(t *testing.T) {
	a, b := BitmapOf(1, 2, 3), BitmapOf(65537)
	r := ParHeapOr(2, a, b)
	r.Add(7)
	if a.Contains(7) {
		t.Fatalf("ParHeapOr result shares a container with its first input")
	}
}
