package roaring64

import "testing"

// A-6: in-place Xor with a key present only in x2 inserts x2's own bucket (shared storage).
func TestFindingA06XorSharesBucket(t *testing.T) {
	a := BitmapOf(2<<32 + 1)
	b := BitmapOf(1<<32+5, 3<<32+7)
	a.Xor(b)
	a.Add(1<<32 + 9)
	if b.Contains(1<<32 + 9) {
		t.Fatalf("a.Xor(b); a.Add(x): b contains x (a and b share a bucket)")
	}
}

// A-15: static Flip inserts a new bucket at an index computed in the SOURCE table.
func TestFindingA15FlipKeyOrder(t *testing.T) {
	b := BitmapOf(1)
	r := Flip(b, 2<<32, 4<<32+3)
	if err := r.Validate(); err != nil {
		t.Fatalf("Flip(BitmapOf(1), 2<<32, 4<<32+3).Validate() = %v (keys %v)", err, r.highlowcontainer.keys)
	}
	want := uint64(1) + (4<<32 + 3 - 2<<32)
	if r.GetCardinality() != want {
		t.Fatalf("cardinality %d, want %d", r.GetCardinality(), want)
	}
}

// A-16: in-place Xor of a bitmap with itself.
func TestFindingA16XorSelf(t *testing.T) {
	a := BitmapOf(1, 1<<32+2, 2<<32+3)
	defer func() {
		if r := recover(); r != nil {
			t.Fatalf("a.Xor(a) panicked: %v", r)
		}
	}()
	a.Xor(a)
	if !a.IsEmpty() {
		t.Fatalf("a.Xor(a) is not empty: %d values", a.GetCardinality())
	}
}
