package roaring64

import "testing"

// Replay (agent bsi): roaring64 BSI.UnmarshalBinary with empty entries before a non-empty one.
// Run: /verif/tools_replay.sh roaring64 /verif/agent_notes/bsi_replay/bsi64_unmarshal_test.go TestReplayBSI64Unmarshal

func TestReplayBSI64UnmarshalSkippedPlanes(t *testing.T) {
	defer func() {
		if r := recover(); r != nil {
			t.Errorf("UnmarshalBinary panics instead of returning an error / reading the planes: %v", r)
		}
	}()
	bm := NewBitmap()
	bm.Add(7)
	raw, err := bm.MarshalBinary()
	if err != nil {
		t.Fatal(err)
	}
	b := NewDefaultBSI()
	if err := b.UnmarshalBinary([][]byte{raw, {}, {}, raw}); err != nil {
		t.Logf("error returned: %v", err)
	}
}

func TestReplayBSI64UnmarshalNoItems(t *testing.T) {
	defer func() {
		if r := recover(); r != nil {
			t.Errorf("UnmarshalBinary(empty list) panics: %v", r)
		}
	}()
	b := NewDefaultBSI()
	_ = b.UnmarshalBinary([][]byte{})
}
