package roaring

import "testing"

// F-5: Bitmap.CardinalityInRange(start, end) with start >= 2^32: end is clamped to 2^32 but start is truncated to 32 bits.
func TestFindingF5CardinalityInRangeBeyond32(t *testing.T) {
	b := BitmapOf(1, 7, 100, 70000, 4294967295)
	if got := b.CardinalityInRange(1<<32+5, 1<<32+10); got != 0 {
		t.Errorf("CardinalityInRange(2^32+5, 2^32+10) = %d, want 0", got)
	}
	if got := b.CardinalityInRange(1<<32, 1<<32+10); got != 0 {
		t.Errorf("CardinalityInRange(2^32, 2^32+10) = %d, want 0", got)
	}
	if got := b.CardinalityInRange(100, 1<<33); got != 3 {
		t.Errorf("CardinalityInRange(100, 2^33) = %d, want 3", got)
	}
}
