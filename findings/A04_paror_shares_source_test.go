package roaring

import "testing"

// A-4: lazyIOrOnRange inserts the SOURCE's container into the accumulator and flags only the accumulator's slot:
// a later write to the input bitmap goes through to the result of ParOr.
func TestFindingA04ParOrSharesSource(t *testing.T) {
	a, b, c := BitmapOf(65537), BitmapOf(20<<16+1), BitmapOf(5)
	r := ParOr(1, a, b, c)
	c.Add(9)
	if r.Contains(9) {
		t.Fatalf("ParOr result changed when an input was modified afterwards")
	}
	r.Add(11)
	if c.Contains(11) {
		t.Fatalf("input changed when the ParOr result was modified")
	}
}
