#!/bin/bash
# usage: tools_seed_confirm.sh <seed-name> <worktree>   e.g. C03a /tmp/seed_C03
# Confirms a seeded change independently (demo fails with it, passes without, existing suite still passes),
# stores it under /verif/seeded/<seed-name>/ and removes the worktree.
set -u
. /verif/env.sh
NAME=$1; WT=$2
S=$WT/.seed
[ -f $S/patch.diff ] && [ -f $S/demo_test.go ] || { echo "missing deliverables"; exit 2; }
PKGLINE=$(grep -m1 '^package ' $S/demo_test.go | awk '{print $2}')
case $PKGLINE in roaring|roaring_test) D=. ;; roaring64|roaring64_test) D=roaring64 ;; internal) D=internal ;; *) D=BitSliceIndexing ;; esac
cd $WT
cp $S/demo_test.go $D/zz_seed_demo_test.go
WITH=$(cd $D && go test -vet=off -count=1 -timeout 300s -run 'TestSeedDemo$' . 2>&1 | tail -1)
# (git stash is shared between worktrees: revert with apply -R instead)
git diff -- . ':(exclude).seed' ':(exclude)*zz_seed_demo_test.go' > $S/.confirm.diff
git apply -R $S/.confirm.diff
WITHOUT=$(cd $D && go test -vet=off -count=1 -timeout 300s -run 'TestSeedDemo$' . 2>&1 | tail -1)
git apply $S/.confirm.diff
rm -f $D/zz_seed_demo_test.go
SKIP='TestBatchEqualExistenceAuthority|TestBSI64BatchEqualExistenceAuthority|TestLargeFile'
SUITE=$(go test -vet=off -count=1 -timeout 25m -skip "$SKIP" ./... 2>&1 | grep -E "^(ok|FAIL|---)" | tr '\n' ';')
echo "with change: $WITH"; echo "without: $WITHOUT"; echo "suite: $SUITE"
case "$WITH" in FAIL*) ;; *) echo "NOT CONFIRMED: demo does not fail with the change"; exit 1;; esac
case "$WITHOUT" in ok*) ;; *) echo "NOT CONFIRMED: demo does not pass on the pristine tree"; exit 1;; esac
case "$SUITE" in *FAIL*) echo "NOT CONFIRMED: existing suite fails with the change"; exit 1;; esac
mkdir -p /verif/seeded/$NAME
git diff -- . ':(exclude).seed' > /verif/seeded/$NAME/patch.diff
cp $S/demo_test.go /verif/seeded/$NAME/demo_test.go
python3 - "$S/meta.json" "/verif/seeded/$NAME/meta.json" "$WITH" "$WITHOUT" "$SUITE" "$D" <<'PY'
import json,sys
src,dst,w,wo,suite,d=sys.argv[1:7]
try: m=json.load(open(src))
except Exception as e: m={"note":"agent meta.json unreadable: %s"%e}
m["confirmed_by_me"]={"demo_with_change":w,"demo_without_change":wo,"existing_suite_with_change":suite,"demo_package_dir":d,
 "commands":"cp demo into the package as zz_seed_demo_test.go; go test -run TestSeedDemo (with change: FAIL, after git stash: ok); go test ./... -skip <fixture-dependent tests> with the change: all ok"}
json.dump(m,open(dst,'w'),indent=1)
PY
(cd /repo && git worktree remove --force $WT 2>/dev/null) || rm -rf $WT
echo "CONFIRMED and stored in /verif/seeded/$NAME"
