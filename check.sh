#!/bin/sh
# usage: check.sh <property> <quick|thorough>
cd "$(dirname "$0")"
. ./env.sh
[ -x bin/rvc ] || ./setup.sh >/dev/null
exec ./bin/rvc check "$1" --tier "${2:-quick}"
