package roaring

// BOUNDED STAND-IN for property C19 (32-bit BSI, /repo/BitSliceIndexing): ClearValues / ParOr use goroutines (outside the subset the
// verifier handles) and the value-level contracts of SetValue / GetValue are only partly provable. This test enumerates a small scope
// exhaustively on the real code and compares with a map column -> value. It decides nothing beyond its bound:
//   columns {0, 1, 5, 1<<20, 1<<31}, values {0, 1, -1, 5, -5, 127, -128, 1<<20, -(1<<20)},
//   every history of up to 2 operations out of: SetValue(col, v) (all 45), SetMany(set, v) (3 sets x 9 values), ClearValues(set),
//   Increment(set|nil), IncrementAll, Add(other), ParOr(other), ParOr(x1, x2) (equal plane counts), and every history of 3 operations over a reduced
//   alphabet (SetValue on columns 0 and 1<<31 with all values, SetMany({1,1<<31}, {0,-1,5,-(1<<20)}), and all the others),
//   on an auto-sized index (NewDefaultBSI) and on a fixed-width index (NewBSI(1<<21, -(1<<21)): 64 planes).
//   After every history: GetValue / ValueExists / GetCardinality against the map; Clone and NewBSIRetainSet(set) must hold the same
//   (restricted) map over bitmaps of their own (mutating the copy leaves the original alone).
// Scope restrictions that follow the property statement: Increment / IncrementAll / Add only while every stored value is non-negative
// (and Add's argument is non-negative); ParOr only with arguments on disjoint columns. Not exercised (known open findings):
// MarshalBinary / UnmarshalBinary; ParOr with several arguments of different plane counts (BSI-F7).

import (
	"fmt"
	"testing"

	"github.com/RoaringBitmap/roaring/v2"
)

var c19Cols32 = []uint64{0, 1, 5, 1 << 20, 1 << 31}
var c19Vals32 = []int64{0, 1, -1, 5, -5, 127, -128, 1 << 20, -(1 << 20)}

type c19Op32 struct {
	core  bool
	name  string
	ok    func(m map[uint64]int64) bool
	apply func(b *BSI, m map[uint64]int64)
}

func c19Set32(cols ...uint64) *roaring.Bitmap {
	s := roaring.NewBitmap()
	for _, c := range cols {
		s.Add(uint32(c))
	}
	return s
}

func c19NonNeg32(m map[uint64]int64) bool {
	for _, v := range m {
		if v < 0 {
			return false
		}
	}
	return true
}

func c19Mk32(o map[uint64]int64) *BSI {
	x := NewDefaultBSI()
	for c, v := range o {
		x.SetValue(c, v)
	}
	return x
}

func c19Ops32() []c19Op32 {
	always := func(map[uint64]int64) bool { return true }
	var ops []c19Op32
	for _, c := range c19Cols32 {
		for _, v := range c19Vals32 {
			c, v := c, v
			ops = append(ops, c19Op32{c == 0 || c == 1<<31, fmt.Sprintf("SetValue(%d,%d)", c, v), always, func(b *BSI, m map[uint64]int64) { b.SetValue(c, v); m[c] = v }})
		}
	}
	sets := [][]uint64{{0, 5}, {1, 1 << 31}, {0, 1, 5, 1 << 20, 1 << 31}}
	for _, cols := range sets {
		cols := cols
		for _, v := range c19Vals32 {
			v := v
			ops = append(ops, c19Op32{len(cols) == 2 && cols[0] == 1 && (v == 0 || v == -1 || v == 5 || v == -(1<<20)), fmt.Sprintf("SetMany(%v,%d)", cols, v), always, func(b *BSI, m map[uint64]int64) {
				b.SetMany(c19Set32(cols...), v)
				for _, c := range cols {
					m[c] = v
				}
			}})
		}
		ops = append(ops, c19Op32{true, fmt.Sprintf("ClearValues(%v)", cols), always, func(b *BSI, m map[uint64]int64) {
			b.ClearValues(c19Set32(cols...))
			for _, c := range cols {
				delete(m, c)
			}
		}})
		ops = append(ops, c19Op32{true, fmt.Sprintf("Increment(%v)", cols), c19NonNeg32, func(b *BSI, m map[uint64]int64) {
			b.Increment(c19Set32(cols...))
			for _, c := range cols {
				m[c] = m[c] + 1 // a column that did not exist starts from 0
			}
		}})
	}
	ops = append(ops, c19Op32{true, "Increment(nil)", c19NonNeg32, func(b *BSI, m map[uint64]int64) {
		b.Increment(nil)
		for c := range m {
			m[c]++
		}
	}})
	ops = append(ops, c19Op32{true, "IncrementAll()", c19NonNeg32, func(b *BSI, m map[uint64]int64) {
		b.IncrementAll()
		for c := range m {
			m[c]++
		}
	}})
	others := []map[uint64]int64{{0: 1}, {1: 127, 1 << 31: 1 << 20}, {5: 1 << 20, 0: 0, 1 << 20: 5}}
	for _, o := range others {
		o := o
		ops = append(ops, c19Op32{true, fmt.Sprintf("Add(%v)", o), c19NonNeg32, func(b *BSI, m map[uint64]int64) {
			b.Add(c19Mk32(o))
			for c, v := range o {
				m[c] += v
			}
		}})
	}
	disjoint := func(os ...map[uint64]int64) func(m map[uint64]int64) bool {
		return func(m map[uint64]int64) bool {
			for _, o := range os {
				for c := range o {
					if _, ok := m[c]; ok {
						return false
					}
				}
			}
			return true
		}
	}
	pars := []map[uint64]int64{{0: 5}, {1: -5, 1 << 31: 1 << 20}, {5: -128, 1 << 20: 0}}
	for _, o := range pars {
		o := o
		ops = append(ops, c19Op32{true, fmt.Sprintf("ParOr(%v)", o), disjoint(o), func(b *BSI, m map[uint64]int64) {
			b.ParOr(0, c19Mk32(o))
			for c, v := range o {
				m[c] = v
			}
		}})
	}
	// two arguments with the SAME plane count (with different plane counts ParOr loses planes of the wider argument: known finding BSI-F7)
	x1, x2 := map[uint64]int64{1: 1 << 20}, map[uint64]int64{5: 1<<20 + 1}
	ops = append(ops, c19Op32{true, "ParOr({1:1<<20},{5:1<<20+1})", disjoint(x1, x2), func(b *BSI, m map[uint64]int64) {
		b.ParOr(0, c19Mk32(x1), c19Mk32(x2))
		m[1], m[5] = 1<<20, 1<<20+1
	}})
	return ops
}

func c19Check32(b *BSI, m map[uint64]int64) string {
	if got := b.GetCardinality(); got != uint64(len(m)) {
		return fmt.Sprintf("GetCardinality() = %d, want %d", got, len(m))
	}
	for _, c := range c19Cols32 {
		want, wantOK := m[c]
		got, ok := b.GetValue(c)
		if ok != wantOK || (ok && got != want) {
			return fmt.Sprintf("GetValue(%d) = (%d,%v), want (%d,%v)", c, got, ok, want, wantOK)
		}
		if b.ValueExists(c) != wantOK {
			return fmt.Sprintf("ValueExists(%d) = %v, want %v", c, !wantOK, wantOK)
		}
	}
	return ""
}

func c19Copies32(b *BSI, m map[uint64]int64) string {
	cl := b.Clone()
	if msg := c19Check32(cl, m); msg != "" {
		return "Clone: " + msg
	}
	keep := []uint64{0, 1 << 31}
	rm := map[uint64]int64{}
	for _, c := range keep {
		if v, ok := m[c]; ok {
			rm[c] = v
		}
	}
	rs := b.NewBSIRetainSet(c19Set32(keep...))
	if msg := c19Check32(rs, rm); msg != "" {
		return fmt.Sprintf("NewBSIRetainSet(%v): %s", keep, msg)
	}
	// independence: writing the copies leaves the original alone
	cl.SetValue(5, 77)
	cl.ClearValues(c19Set32(0, 1))
	rs.SetValue(0, -9)
	if msg := c19Check32(b, m); msg != "" {
		return "original after mutating its copies: " + msg
	}
	return ""
}

func TestBoundedC19BSI32(t *testing.T) {
	ops := c19Ops32()
	cases := 0
	news := []struct {
		name string
		mk   func() *BSI
	}{
		{"NewDefaultBSI()", NewDefaultBSI},
		{"NewBSI(1<<21,-(1<<21))", func() *BSI { return NewBSI(1<<21, -(1 << 21)) }},
	}
	for _, nw := range news {
		var run func(hist []int)
		run = func(hist []int) {
			// replay the history from scratch (operations mutate in place)
			b, m := nw.mk(), map[uint64]int64{}
			names := ""
			func() {
				defer func() {
					if r := recover(); r != nil {
						t.Fatalf("FAILING-INPUT property=C19 %s%s: panic: %v", nw.name, names, r)
					}
				}()
				for _, k := range hist {
					names += " ; " + ops[k].name
					ops[k].apply(b, m)
				}
				cases++
				if msg := c19Check32(b, m); msg != "" {
					t.Fatalf("FAILING-INPUT property=C19 %s%s: %s", nw.name, names, msg)
				}
				if len(hist) <= 2 { // the copying operations on every state reachable in up to 2 steps
					if msg := c19Copies32(b, m); msg != "" {
						t.Fatalf("FAILING-INPUT property=C19 %s%s: %s", nw.name, names, msg)
					}
				}
			}()
			if len(hist) == 3 {
				return
			}
			// histories of length <= 2: over ALL operations; histories of length 3: over the reduced alphabet (core operations) only
			allCore := true
			for _, k := range hist {
				allCore = allCore && ops[k].core
			}
			for k := range ops {
				if !ops[k].ok(m) { // outside the scope restriction in this state: not generated
					continue
				}
				if len(hist) == 2 && !(allCore && ops[k].core) {
					continue
				}
				run(append(append([]int(nil), hist...), k))
			}
		}
		run(nil)
	}
	t.Logf("BOUNDED-CASES %d", cases)
}
