package roaring64

// BOUNDED STAND-IN for property C19 (64-bit BSI): SetValue / SetMany / GetValue go through math/big, ParOr / Clone / NewBSIRetainSet
// through goroutines: outside the subset the verifier handles. This test enumerates a small scope exhaustively on the real code and
// compares with a map column -> value. It decides nothing beyond its bound:
//   columns {0, 1, 5, 1<<32, 1<<40}, values {0, 1, -1, 5, -5, 127, -128, 1<<20, -(1<<20), 1<<40},
//   every history of up to 2 operations out of: SetValue(col, v) (all 50), SetMany(set, v) (3 sets x 10 values), ClearValues(set),
//   Retain(set), Increment(set|nil), IncrementAll, Add(other), ParOr(other) (3 sets / 3 small indexes), and every history of 3 operations
//   over a reduced alphabet (SetValue on columns 0 and 1<<40 with all values, SetMany({1,1<<40}, {0,-1,5,-(1<<20)}), and all the others),
//   on an auto-sized index (NewDefaultBSI) and on a fixed-width index (NewBSI(1<<41, -(1<<41))).
//   After every history: GetValue / ValueExists / GetCardinality / GetValues against the map; Clone, NewBSIRetainSet(set),
//   WriteTo+ReadFrom must hold the same (restricted) map and Clone must be Equal.
// Scope restrictions that follow the property statement: Increment / IncrementAll / Add are applied only while every stored value is
// non-negative (and Add's argument is non-negative); ParOr only with an argument on disjoint columns and, because of the known finding
// BSI-F6 (no sign extension when ParOr widens), only while all values on both sides are non-negative. Not exercised (known open
// findings): MarshalBinary / UnmarshalBinary, indexes without planes.

import (
	"bytes"
	"fmt"
	"testing"
)

var c19Cols = []uint64{0, 1, 5, 1 << 32, 1 << 40}
var c19Vals = []int64{0, 1, -1, 5, -5, 127, -128, 1 << 20, -(1 << 20), 1 << 40}

type c19Op struct {
	core  bool // member of the reduced alphabet used for the histories of length 3
	name  string
	ok    func(m map[uint64]int64) bool // applicable in this state (scope restriction)
	apply func(b *BSI, m map[uint64]int64)
}

func c19Set(cols ...uint64) *Bitmap {
	s := NewBitmap()
	for _, c := range cols {
		s.Add(c)
	}
	return s
}

func c19NonNeg(m map[uint64]int64) bool {
	for _, v := range m {
		if v < 0 {
			return false
		}
	}
	return true
}

func c19Ops() []c19Op {
	always := func(map[uint64]int64) bool { return true }
	var ops []c19Op
	for _, c := range c19Cols {
		for _, v := range c19Vals {
			c, v := c, v
			ops = append(ops, c19Op{c == 0 || c == 1<<40, fmt.Sprintf("SetValue(%d,%d)", c, v), always, func(b *BSI, m map[uint64]int64) { b.SetValue(c, v); m[c] = v }})
		}
	}
	sets := [][]uint64{{0, 5}, {1, 1 << 40}, {0, 1, 5, 1 << 32, 1 << 40}}
	for _, cols := range sets {
		cols := cols
		for _, v := range c19Vals {
			v := v
			ops = append(ops, c19Op{len(cols) == 2 && cols[0] == 1 && (v == 0 || v == -1 || v == 5 || v == -(1<<20)), fmt.Sprintf("SetMany(%v,%d)", cols, v), always, func(b *BSI, m map[uint64]int64) {
				b.SetMany(c19Set(cols...), v)
				for _, c := range cols {
					m[c] = v
				}
			}})
		}
		ops = append(ops, c19Op{true, fmt.Sprintf("ClearValues(%v)", cols), always, func(b *BSI, m map[uint64]int64) {
			b.ClearValues(c19Set(cols...))
			for _, c := range cols {
				delete(m, c)
			}
		}})
		ops = append(ops, c19Op{true, fmt.Sprintf("Retain(%v)", cols), always, func(b *BSI, m map[uint64]int64) {
			before := uint64(len(m))
			dropped := b.Retain(c19Set(cols...))
			keep := map[uint64]bool{}
			for _, c := range cols {
				keep[c] = true
			}
			for c := range m {
				if !keep[c] {
					delete(m, c)
				}
			}
			if dropped != before-uint64(len(m)) {
				panic(fmt.Sprintf("Retain(%v) reports %d dropped columns, want %d", cols, dropped, before-uint64(len(m))))
			}
		}})
		ops = append(ops, c19Op{true, fmt.Sprintf("Increment(%v)", cols), c19NonNeg, func(b *BSI, m map[uint64]int64) {
			b.Increment(c19Set(cols...))
			for _, c := range cols {
				m[c] = m[c] + 1 // a column that did not exist starts from 0
			}
		}})
	}
	ops = append(ops, c19Op{true, "Increment(nil)", c19NonNeg, func(b *BSI, m map[uint64]int64) {
		b.Increment(nil)
		for c := range m {
			m[c]++
		}
	}})
	ops = append(ops, c19Op{true, "IncrementAll()", c19NonNeg, func(b *BSI, m map[uint64]int64) {
		b.IncrementAll()
		for c := range m {
			m[c]++
		}
	}})
	others := []map[uint64]int64{{0: 1}, {1: 127, 1 << 40: 1 << 20}, {5: 1 << 40, 0: 0, 1 << 32: 5}}
	for _, o := range others {
		o := o
		mk := func() *BSI {
			x := NewDefaultBSI()
			for c, v := range o {
				x.SetValue(c, v)
			}
			return x
		}
		ops = append(ops, c19Op{true, fmt.Sprintf("Add(%v)", o), c19NonNeg, func(b *BSI, m map[uint64]int64) {
			b.Add(mk())
			for c, v := range o {
				m[c] += v
			}
		}})
	}
	// (ParOr with NEGATIVE values on either side and different plane counts is a known finding, BSI-F6: the planes it appends are not
	// sign-extended and the narrower operand's sign plane lands on a magnitude position; so ParOr is generated for non-negative data only)
	pars := []map[uint64]int64{{0: 5}, {1: 127, 1 << 40: 1 << 40}, {5: 1 << 20, 1 << 32: 0}}
	for _, o := range pars {
		o := o
		disjoint := func(m map[uint64]int64) bool {
			if !c19NonNeg(m) {
				return false
			}
			for c := range o {
				if _, ok := m[c]; ok {
					return false
				}
			}
			return true
		}
		ops = append(ops, c19Op{true, fmt.Sprintf("ParOr(%v)", o), disjoint, func(b *BSI, m map[uint64]int64) {
			x := NewDefaultBSI()
			for c, v := range o {
				x.SetValue(c, v)
			}
			b.ParOr(0, x)
			for c, v := range o {
				m[c] = v
			}
		}})
	}
	return ops
}

func c19Check(b *BSI, m map[uint64]int64) string {
	if got := b.GetCardinality(); got != uint64(len(m)) {
		return fmt.Sprintf("GetCardinality() = %d, want %d", got, len(m))
	}
	vals, oks := b.GetValues(c19Cols)
	for i, c := range c19Cols {
		want, wantOK := m[c]
		got, ok := b.GetValue(c)
		if ok != wantOK || (ok && got != want) {
			return fmt.Sprintf("GetValue(%d) = (%d,%v), want (%d,%v)", c, got, ok, want, wantOK)
		}
		if b.ValueExists(c) != wantOK {
			return fmt.Sprintf("ValueExists(%d) = %v, want %v", c, !wantOK, wantOK)
		}
		if oks[i] != wantOK || (wantOK && vals[i] != want) {
			return fmt.Sprintf("GetValues[%d] = (%d,%v), want (%d,%v)", c, vals[i], oks[i], want, wantOK)
		}
	}
	return ""
}

func c19Copies(b *BSI, m map[uint64]int64) string {
	cl := b.Clone()
	if msg := c19Check(cl, m); msg != "" {
		return "Clone: " + msg
	}
	if !b.Equals(cl) || !cl.Equals(b) {
		return "Clone: not Equal to the original"
	}
	keep := []uint64{0, 1 << 40}
	rm := map[uint64]int64{}
	for _, c := range keep {
		if v, ok := m[c]; ok {
			rm[c] = v
		}
	}
	if msg := c19Check(b.NewBSIRetainSet(c19Set(keep...)), rm); msg != "" {
		return fmt.Sprintf("NewBSIRetainSet(%v): %s", keep, msg)
	}
	var buf bytes.Buffer
	if _, err := b.WriteTo(&buf); err != nil {
		return "WriteTo: " + err.Error()
	}
	rd := NewDefaultBSI()
	if _, err := rd.ReadFrom(&buf); err != nil {
		return "ReadFrom: " + err.Error()
	}
	if msg := c19Check(rd, m); msg != "" {
		return "WriteTo+ReadFrom: " + msg
	}
	if msg := c19Check(b, m); msg != "" {
		return "original after copying: " + msg
	}
	return ""
}

func TestBoundedC19BSI64(t *testing.T) {
	ops := c19Ops()
	cases := 0
	news := []struct {
		name string
		mk   func() *BSI
	}{
		{"NewDefaultBSI()", NewDefaultBSI},
		{"NewBSI(1<<41,-(1<<41))", func() *BSI { return NewBSI(1<<41, -(1 << 41)) }},
	}
	for _, nw := range news {
		var run func(hist []int)
		run = func(hist []int) {
			// replay the history from scratch (operations mutate in place)
			b, m := nw.mk(), map[uint64]int64{}
			names := ""
			func() {
				defer func() {
					if r := recover(); r != nil {
						t.Fatalf("FAILING-INPUT property=C19 %s%s: panic: %v", nw.name, names, r)
					}
				}()
				for _, k := range hist {
					names += " ; " + ops[k].name
					ops[k].apply(b, m)
				}
				cases++
				if msg := c19Check(b, m); msg != "" {
					t.Fatalf("FAILING-INPUT property=C19 %s%s: %s", nw.name, names, msg)
				}
				if len(hist) <= 2 { // the copying operations on every state reachable in up to 2 steps
					if msg := c19Copies(b, m); msg != "" {
						t.Fatalf("FAILING-INPUT property=C19 %s%s: %s", nw.name, names, msg)
					}
				}
			}()
			if len(hist) == 3 {
				return
			}
			// histories of length <= 2: over ALL operations; histories of length 3: over the reduced alphabet (core operations) only
			allCore := true
			for _, k := range hist {
				allCore = allCore && ops[k].core
			}
			for k := range ops {
				if !ops[k].ok(m) { // outside the scope restriction in this state: not generated
					continue
				}
				if len(hist) == 2 && !(allCore && ops[k].core) {
					continue
				}
				run(append(append([]int(nil), hist...), k))
			}
		}
		run(nil)
	}
	t.Logf("BOUNDED-CASES %d", cases)
}
