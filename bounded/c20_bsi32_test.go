package roaring

// BOUNDED STAND-IN for property C20 (32-bit BSI, /repo/BitSliceIndexing): CompareValue / BatchEqual / MinMax / Sum / Transpose use
// goroutines, channels, maps and closures (outside the subset the verifier handles). This test enumerates a small scope exhaustively on
// the real code and compares every query with the predicate evaluated on each stored value. It decides nothing beyond its bound:
//   stored maps: every map from the columns {0, 5, 1<<31} (each absent or present) to the values
//   {0, 1, -1, 5, -5, 127, -128, 1<<20, -(1<<20)}: 10^3 = 1000 auto-sized indexes built with SetValue;
//   CompareValue: LT, LE, EQ, GE, GT with every value of the set as constant and RANGE with every pair start <= end of
//   {-128, -1, 0, 5, 1<<20} on non-negative data with a non-negative start (RANGE with mixed signs: known finding BSI-F9; LT/EQ/GT
//   against a constant that is the negation of a stored value: known finding BSI-F11), each with found-set nil / the existence bitmap / a proper subset / a single column, for EVERY worker
//   count 0..3 (the 32-bit comparisons always go through the parallel executor);
//   BatchEqual: every single value and 5 value lists (worker count cycling); MinMax (MIN, MAX; worker counts 0..3) and Sum over the four
//   found-sets (MinMax: non-empty only); Transpose / IntersectAndTranspose and TransposeWithCounts for worker counts 0..3.
//   Every returned bitmap is then mutated to check that the index does not change (independence).

import (
	"fmt"
	"sort"
	"testing"

	"github.com/RoaringBitmap/roaring/v2"
)

var c20Cols = []uint64{0, 5, 1 << 31}
var c20Vals = []int64{0, 1, -1, 5, -5, 127, -128, 1 << 20, -(1 << 20)}

func c20Set(cols ...uint64) *roaring.Bitmap {
	s := roaring.NewBitmap()
	for _, c := range cols {
		s.Add(uint32(c))
	}
	return s
}

func c20Build(m map[uint64]int64) *BSI {
	b := NewDefaultBSI()
	cs := make([]uint64, 0, len(m))
	for c := range m {
		cs = append(cs, c)
	}
	sort.Slice(cs, func(i, j int) bool { return cs[i] < cs[j] })
	for _, c := range cs {
		b.SetValue(c, m[c])
	}
	return b
}

func c20Cmp(op Operation, v, a, e int64) bool {
	switch op {
	case LT:
		return v < a
	case LE:
		return v <= a
	case EQ:
		return v == a
	case GE:
		return v >= a
	case GT:
		return v > a
	case RANGE:
		return v >= a && v <= e
	}
	panic("op")
}

func c20Same(got *roaring.Bitmap, want map[uint64]bool) string {
	if got == nil {
		return "nil result"
	}
	arr := got.ToArray()
	if len(arr) != len(want) {
		return fmt.Sprintf("got %v, want %v", arr, c20Keys(want))
	}
	for _, c := range arr {
		if !want[uint64(c)] {
			return fmt.Sprintf("got %v, want %v", arr, c20Keys(want))
		}
	}
	return ""
}

func c20Keys(m map[uint64]bool) []uint64 {
	ks := []uint64{}
	for k := range m {
		ks = append(ks, k)
	}
	sort.Slice(ks, func(i, j int) bool { return ks[i] < ks[j] })
	return ks
}

func TestBoundedC20BSI32(t *testing.T) {
	cases := 0
	ops := []Operation{LT, LE, EQ, GE, GT}
	opName := map[Operation]string{LT: "LT", LE: "LE", EQ: "EQ", GE: "GE", GT: "GT", RANGE: "RANGE", MIN: "MIN", MAX: "MAX"}
	rangeVals := []int64{-128, -1, 0, 5, 1 << 20}
	batchLists := [][]int64{{0, 1}, {-1, -5, -128}, {5, 127, 1 << 20}, {0, 1, -1, 5, -5, 127, -128, 1 << 20, -(1 << 20)}, {2, 3, -7}}
	worker := 0
	nextWorker := func() int { worker = (worker + 1) % 4; return worker }

	// enumerate the stored maps: index 0 = absent, 1..10 = value
	n := len(c20Vals) + 1
	for code := 0; code < n*n*n; code++ {
		m := map[uint64]int64{}
		desc := ""
		for k, x := 0, code; k < 3; k, x = k+1, x/n {
			if d := x % n; d > 0 {
				m[c20Cols[k]] = c20Vals[d-1]
				desc += fmt.Sprintf(" %d:%d", c20Cols[k], c20Vals[d-1])
			}
		}
		b := c20Build(m)
		fail := func(format string, a ...interface{}) {
			t.Fatalf("FAILING-INPUT property=C20 index{%s }: %s", desc, fmt.Sprintf(format, a...))
		}
		unchanged := func(what string) {
			for _, c := range c20Cols {
				want, wantOK := m[c]
				got, ok := b.GetValue(c)
				if ok != wantOK || (ok && got != want) {
					fail("after mutating the result of %s the index changed: GetValue(%d) = (%d,%v), want (%d,%v)", what, c, got, ok, want, wantOK)
				}
			}
		}
		// found-sets: nil, all, a proper subset, a single column (of EXISTING columns)
		exist := []uint64{}
		for _, c := range c20Cols {
			if _, ok := m[c]; ok {
				exist = append(exist, c)
			}
		}
		type fsT struct {
			name string
			mk   func() *roaring.Bitmap
			in   func(c uint64) bool
		}
		fss := []fsT{{"nil", func() *roaring.Bitmap { return nil }, func(uint64) bool { return true }},
			{"all", func() *roaring.Bitmap { return c20Set(exist...) }, func(uint64) bool { return true }}}
		if len(exist) >= 2 {
			sub := exist[1:]
			fss = append(fss, fsT{fmt.Sprintf("%v", sub), func() *roaring.Bitmap { return c20Set(sub...) }, func(c uint64) bool { return c != exist[0] }})
		}
		if len(exist) >= 1 {
			one := exist[len(exist)-1]
			fss = append(fss, fsT{fmt.Sprintf("[%d]", one), func() *roaring.Bitmap { return c20Set(one) }, func(c uint64) bool { return c == one }})
		}

		// --- CompareValue
		for _, fs := range fss {
			for _, op := range ops {
				for _, a := range c20Vals {
					want := map[uint64]bool{}
					known := false
					for c, v := range m {
						if fs.in(c) && c20Cmp(op, v, a, 0) {
							want[c] = true
						}
						if (op == EQ || op == GT || op == LT) && v == -a && v != 0 {
							known = true // known finding BSI-F11: a stored value and a constant of opposite sign and equal magnitude compare as equal
						}
					}
					if known {
						continue
					}
					for w := 0; w <= 3; w++ {
						got := b.CompareValue(w, op, a, 0, fs.mk())
						cases++
						if msg := c20Same(got, want); msg != "" {
							fail("CompareValue(%d, %s, %d, 0, foundSet=%s): %s", w, opName[op], a, fs.name, msg)
						}
						got.Add(77)
						got.Remove(0)
					}
				}
			}
			pairs := [][2]int64{}
			for i, a := range rangeVals {
				for _, e := range rangeVals[i:] {
					pairs = append(pairs, [2]int64{a, e})
				}
			}
			for _, p := range pairs {
				mixed := p[0] < 0
				for _, v := range m {
					mixed = mixed || v < 0
				}
				if mixed {
					continue // known finding BSI-F9: RANGE is wrong when signs are mixed (negative start or negative stored values): `end` is not compared
				}
				want := map[uint64]bool{}
				for c, v := range m {
					if fs.in(c) && c20Cmp(RANGE, v, p[0], p[1]) {
						want[c] = true
					}
				}
				for w := 0; w <= 3; w++ {
					got := b.CompareValue(w, RANGE, p[0], p[1], fs.mk())
					cases++
					if msg := c20Same(got, want); msg != "" {
						fail("CompareValue(%d, RANGE, %d, %d, foundSet=%s): %s", w, p[0], p[1], fs.name, msg)
					}
					got.Add(77)
				}
			}
		}
		unchanged("CompareValue")

		// --- BatchEqual
		lists := append([][]int64{}, batchLists...)
		for _, v := range c20Vals {
			lists = append(lists, []int64{v})
		}
		for _, l := range lists {
			want := map[uint64]bool{}
			for c, v := range m {
				for _, x := range l {
					if v == x {
						want[c] = true
					}
				}
			}
			w := nextWorker()
			got := b.BatchEqual(w, l)
			cases++
			if msg := c20Same(got, want); msg != "" {
				fail("BatchEqual(%d, %v): %s", w, l, msg)
			}
			got.Add(77)
			got.Remove(0)
		}
		unchanged("BatchEqual")

		// --- MinMax, Sum
		for _, fs := range fss {
			var vals []int64
			for c, v := range m {
				if fs.in(c) {
					vals = append(vals, v)
				}
			}
			sum := int64(0)
			for _, v := range vals {
				sum += v
			}
			gs, gc := b.Sum(fs.mk())
			cases++
			if gs != sum || gc != uint64(len(vals)) {
				fail("Sum(foundSet=%s) = (%d,%d), want (%d,%d)", fs.name, gs, gc, sum, len(vals))
			}
			anyNeg := false
			for _, v := range m {
				anyNeg = anyNeg || v < 0
			}
			if len(vals) == 0 || b.BitCount() == 0 || anyNeg {
				continue // known finding BSI-F10: MinMax is wrong on an index without planes (all values 0) and when negative values are stored
			}
			mn, mx := vals[0], vals[0]
			for _, v := range vals {
				if v < mn {
					mn = v
				}
				if v > mx {
					mx = v
				}
			}
			for w := 0; w <= 3; w++ {
				// known finding BSI-F10 (cont.): a minimum with every plane set (2^BitCount-1) / a maximum of 0 compares "equal" to the initial extreme
				if mn != int64(1)<<uint(b.BitCount())-1 {
					if g := b.MinMax(w, MIN, fs.mk()); g != mn {
						fail("MinMax(%d, MIN, foundSet=%s) = %d, want %d", w, fs.name, g, mn)
					}
					cases++
				}
				if mx != 0 {
					if g := b.MinMax(w, MAX, fs.mk()); g != mx {
						fail("MinMax(%d, MAX, foundSet=%s) = %d, want %d", w, fs.name, g, mx)
					}
					cases++
				}
			}
		}

		// --- Transpose / IntersectAndTranspose / TransposeWithCounts, every worker count
		for w := 0; w <= 3; w++ {
			for _, fs := range fss {
				want := map[uint64]bool{}
				counts := map[uint64]int64{}
				for c, v := range m {
					if fs.in(c) {
						want[uint64(uint32(v))] = true
						counts[uint64(uint32(v))]++
					}
				}
				got := b.IntersectAndTranspose(w, fs.mk())
				cases++
				if msg := c20Same(got, want); msg != "" {
					fail("IntersectAndTranspose(%d, foundSet=%s): %s", w, fs.name, msg)
				}
				got.Add(78)
				tc := b.TransposeWithCounts(w, fs.mk())
				cases++
				if tc.GetCardinality() != uint64(len(counts)) {
					fail("TransposeWithCounts(%d, foundSet=%s): %d distinct values, want %d", w, fs.name, tc.GetCardinality(), len(counts))
				}
				for v, k := range counts {
					if g, ok := tc.GetValue(v); !ok || g != k {
						fail("TransposeWithCounts(%d, foundSet=%s): count of value (column) %d = (%d,%v), want (%d,true)", w, fs.name, v, g, ok, k)
					}
				}
			}
		}
		if w := (code % 4); true {
			want := map[uint64]bool{}
			for _, v := range m {
				want[uint64(uint32(v))] = true
			}
			_ = w
			got := b.Transpose()
			cases++
			if msg := c20Same(got, want); msg != "" {
				fail("Transpose(): %s", msg)
			}
			got.Add(78)
		}
		unchanged("Transpose")
	}
	t.Logf("BOUNDED-CASES %d", cases)
}
