package roaring64

// BOUNDED STAND-IN for the aggregate part of property C17 (and C07, 64-bit): ParOr uses goroutines and channels, which
// are outside the subset the verifier handles; FastOr/FastAnd are included for comparison. Small-scope enumeration:
// lists of 0..3 bitmaps (with repetition, every order) from a pool of 7 bitmaps (empty, single value, values across
// several 2^32 buckets, the top bucket, dense bucket, copy-on-write), worker counts 0..3, compared with the fold of
// the binary operations; every result is then mutated and the pool compared with its snapshot.

import (
	"fmt"
	"testing"
)

func bounded64Pool() []*Bitmap {
	mk := func(f func(b *Bitmap)) *Bitmap { b := New(); f(b); return b }
	return []*Bitmap{
		mk(func(b *Bitmap) {}),
		mk(func(b *Bitmap) { b.Add(5) }),
		mk(func(b *Bitmap) { b.Add(1); b.Add(1<<32 + 2); b.Add(2<<32 + 3) }),
		mk(func(b *Bitmap) { b.Add(0xFFFFFFFFFFFFFFFF); b.Add(0xFFFFFFFF00000000); b.Add(7) }),
		mk(func(b *Bitmap) { b.AddRange(1<<32-10, 1<<32+10) }),
		mk(func(b *Bitmap) { b.AddRange(0, 100000); b.RunOptimize() }),
		mk(func(b *Bitmap) { b.SetCopyOnWrite(true); b.AddRange(3<<32, 3<<32+5000); b.Add(9 << 32) }),
	}
}

func TestBoundedC17(t *testing.T) { bounded64Aggregates(t, "C17", true, false) }
func TestBoundedC07r64(t *testing.T) { bounded64Aggregates(t, "C07", false, true) }

func bounded64Aggregates(t *testing.T, prop string, values, aliasing bool) {
	pool := bounded64Pool()
	snap := make([]*Bitmap, len(pool))
	for i, p := range pool {
		snap[i] = p.Clone()
	}
	cases := 0
	fail := func(format string, a ...interface{}) {
		t.Fatalf("FAILING-INPUT property="+prop+" "+format, a...)
	}
	check := func(idx []int) {
		list := make([]*Bitmap, len(idx))
		for i, j := range idx {
			list[i] = pool[j]
		}
		or, and := New(), New()
		for i, b := range list {
			or.Or(b)
			if i == 0 {
				and = b.Clone()
			} else {
				and.And(b)
			}
		}
		type res struct {
			name string
			got  *Bitmap
			want *Bitmap
		}
		rs := []res{{"FastOr", FastOr(list...), or}}
		if len(list) > 0 {
			rs = append(rs, res{"FastAnd", FastAnd(list...), and})
		}
		for w := 0; w <= 3; w++ {
			rs = append(rs, res{fmt.Sprintf("ParOr(%d)", w), ParOr(w, append([]*Bitmap(nil), list...)...), or})
		}
		for _, r := range rs {
			cases++
			if values && !r.got.Equals(r.want) {
				fail("%s over pool indices %v: %d values, fold gives %d", r.name, idx, r.got.GetCardinality(), r.want.GetCardinality())
			}
			if !aliasing {
				continue
			}
			r.got.Add(123456789)
			r.got.Add(1<<32 + 77)
			r.got.Remove(5)
			r.got.RemoveRange(3<<32, 3<<32+100)
			for i := range pool {
				if !pool[i].Equals(snap[i]) {
					fail("%s over pool indices %v: mutating the result changed pool bitmap %d", r.name, idx, i)
				}
			}
		}
	}
	n := len(pool)
	check(nil)
	for a := 0; a < n; a++ {
		check([]int{a})
		for b := 0; b < n; b++ {
			check([]int{a, b})
			for c := 0; c < n; c++ {
				check([]int{a, b, c})
			}
		}
	}
	t.Logf("BOUNDED-CASES %d", cases)
}
