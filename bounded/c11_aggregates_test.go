package roaring

// BOUNDED STAND-IN for property C11 (and the aggregate part of C07): HeapOr, HeapXor, ParOr, ParAnd, ParHeapOr use
// container/heap, goroutines and channels, which are outside the subset the verifier handles. This test enumerates a
// small scope exhaustively and compares with the fold of the binary operation. It decides nothing beyond its bound:
// lists of 0..3 bitmaps drawn (with repetition, every order) from a pool of 9 bitmaps chosen for boundaries (empty,
// single value, chunk kinds array/bitmap/run, full chunk, top of the key space, multi-chunk), worker counts 0..3.

import (
	"fmt"
	"testing"
)

func boundedPool() []*Bitmap {
	mk := func(f func(b *Bitmap)) *Bitmap { b := NewBitmap(); f(b); return b }
	return []*Bitmap{
		mk(func(b *Bitmap) {}),
		mk(func(b *Bitmap) { b.Add(5) }),
		mk(func(b *Bitmap) { b.AddRange(0, 70000); b.RunOptimize() }),
		mk(func(b *Bitmap) {
			for i := uint32(0); i < 9000; i += 2 {
				b.Add(i)
			}
		}),
		mk(func(b *Bitmap) { b.AddRange(65536, 131072) }),
		mk(func(b *Bitmap) { b.Add(0xFFFFFFFF); b.Add(0xFFFF0000); b.AddRange(0xFFFE0000, 0xFFFE0100); b.RunOptimize() }),
		mk(func(b *Bitmap) { b.Add(3 << 16); b.Add(0xFFFD0005); b.Add(7) }),
		mk(func(b *Bitmap) { b.AddRange(100, 5000); b.RemoveRange(200, 300) }),
		mk(func(b *Bitmap) { b.SetCopyOnWrite(true); b.AddRange(60000, 200000); b.Add(0xFFFF0001) }),
	}
}

func TestBoundedC11(t *testing.T) { boundedAggregates(t, "C11", true, false) }

// the same enumeration for the aggregate part of C07: mutating a result must leave every input as it was
func TestBoundedC07(t *testing.T) { boundedAggregates(t, "C07", false, true) }

func boundedAggregates(t *testing.T, prop string, values, aliasing bool) {
	pool := boundedPool()
	snap := make([]*Bitmap, len(pool))
	for i, p := range pool {
		snap[i] = p.Clone()
	}
	cases := 0
	fail := func(format string, a ...interface{}) {
		t.Fatalf("FAILING-INPUT property="+prop+" "+format, a...)
	}
	check := func(idx []int) {
		list := make([]*Bitmap, len(idx))
		for i, j := range idx {
			list[i] = pool[j]
		}
		or, and, xor := NewBitmap(), NewBitmap(), NewBitmap()
		for i, b := range list {
			or.Or(b)
			xor.Xor(b)
			if i == 0 {
				and = b.Clone()
			} else {
				and.And(b)
			}
		}
		type res struct {
			name string
			got  *Bitmap
			want *Bitmap
		}
		var rs []res
		rs = append(rs, res{"FastOr", FastOr(list...), or}, res{"HeapOr", HeapOr(list...), or}, res{"HeapXor", HeapXor(list...), xor})
		if len(list) > 0 {
			rs = append(rs, res{"FastAnd", FastAnd(list...), and})
		}
		for w := 0; w <= 3; w++ {
			rs = append(rs, res{fmt.Sprintf("ParOr(%d)", w), ParOr(w, append([]*Bitmap(nil), list...)...), or},
				res{fmt.Sprintf("ParHeapOr(%d)", w), ParHeapOr(w, list...), or})
			if len(list) > 0 {
				rs = append(rs, res{fmt.Sprintf("ParAnd(%d)", w), ParAnd(w, list...), and})
			}
		}
		if len(list) > 0 {
			x := pool[3].Clone()
			x.AndAny(list...)
			want := And(pool[3], or)
			rs = append(rs, res{"AndAny", x, want})
		}
		for _, r := range rs {
			cases++
			if values && !r.got.Equals(r.want) {
				fail("%s over pool indices %v: %d values, fold gives %d", r.name, idx, r.got.GetCardinality(), r.want.GetCardinality())
			}
			if values {
				if err := r.got.Validate(); err != nil && r.got.GetCardinality() > 0 {
					fail("%s over pool indices %v: result fails Validate(): %v", r.name, idx, err)
				}
			}
			if !aliasing {
				continue
			}
			// value semantics (C07): mutating the result leaves every input as it was
			r.got.Add(123456789)
			r.got.Remove(5)
			r.got.RemoveRange(65536, 70000)
			for i := range pool {
				if !pool[i].Equals(snap[i]) {
					fail("%s over pool indices %v: mutating the result changed pool bitmap %d", r.name, idx, i)
				}
			}
		}
	}
	n := len(pool)
	check(nil)
	for a := 0; a < n; a++ {
		check([]int{a})
		for b := 0; b < n; b++ {
			check([]int{a, b})
			for c := 0; c < n; c++ {
				check([]int{a, b, c})
			}
		}
	}
	t.Logf("BOUNDED-CASES %d", cases)
}
