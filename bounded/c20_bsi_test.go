package roaring64

// BOUNDED STAND-IN for property C20 (64-bit BSI): CompareValue / BatchEqual / MinMax / Sum / Transpose use math/big, maps, closures and
// goroutines (outside the subset the verifier handles; CompareBSI's plane algebra IS handled by contracts). This test enumerates a small
// scope exhaustively on the real code and compares every query with the predicate evaluated on each stored value. It decides nothing
// beyond its bound:
//   stored maps: every map from the columns {0, 5, 1<<40} (each absent or present) to the values
//   {0, 1, -1, 5, -5, 127, -128, 1<<20, -(1<<20), 1<<40}: 11^3 = 1331 auto-sized indexes built with SetValue;
//   CompareValue: LT, LE, EQ, GE, GT with every value of the set as constant and RANGE with every pair start <= end of
//   {-128, -1, 0, 5, 1<<20} plus one pair start > end, each with found-set nil / the existence bitmap / a proper subset / a single
//   column; constants outside the index's current width are skipped (the property assumes constants within range);
//   CompareBSI: against 6 fixed other indexes (narrower, wider, negative, empty), all five operators, found-set nil / subset;
//   BatchEqual: every single value and 5 value lists; MinMax (MIN, MAX) and Sum over the four found-sets (MinMax: non-empty only);
//   Transpose / IntersectAndTranspose and TransposeWithCounts for worker counts 0..3 (the queries above do not use their parallelism
//   argument on the int64 fast path: the worker count cycles through 0..3 from case to case).
//   Every returned bitmap is then mutated to check that the index does not change (independence).

import (
	"fmt"
	"sort"
	"testing"
)

var c20Cols = []uint64{0, 5, 1 << 40}
var c20Vals = []int64{0, 1, -1, 5, -5, 127, -128, 1 << 20, -(1 << 20), 1 << 40}

func c20Set(cols ...uint64) *Bitmap {
	s := NewBitmap()
	for _, c := range cols {
		s.Add(c)
	}
	return s
}

func c20Build(m map[uint64]int64) *BSI {
	b := NewDefaultBSI()
	cs := make([]uint64, 0, len(m))
	for c := range m {
		cs = append(cs, c)
	}
	sort.Slice(cs, func(i, j int) bool { return cs[i] < cs[j] })
	for _, c := range cs {
		b.SetValue(c, m[c])
	}
	return b
}

func c20Cmp(op Operation, v, a, e int64) bool {
	switch op {
	case LT:
		return v < a
	case LE:
		return v <= a
	case EQ:
		return v == a
	case GE:
		return v >= a
	case GT:
		return v > a
	case RANGE:
		return v >= a && v <= e
	}
	panic("op")
}

func c20Same(got *Bitmap, want map[uint64]bool) string {
	if got == nil {
		return "nil result"
	}
	arr := got.ToArray()
	if len(arr) != len(want) {
		return fmt.Sprintf("got %v, want %v", arr, c20Keys(want))
	}
	for _, c := range arr {
		if !want[c] {
			return fmt.Sprintf("got %v, want %v", arr, c20Keys(want))
		}
	}
	return ""
}

func c20Keys(m map[uint64]bool) []uint64 {
	ks := []uint64{}
	for k := range m {
		ks = append(ks, k)
	}
	sort.Slice(ks, func(i, j int) bool { return ks[i] < ks[j] })
	return ks
}

func TestBoundedC20BSI64(t *testing.T) {
	cases := 0
	ops := []Operation{LT, LE, EQ, GE, GT}
	opName := map[Operation]string{LT: "LT", LE: "LE", EQ: "EQ", GE: "GE", GT: "GT", RANGE: "RANGE", MIN: "MIN", MAX: "MAX"}
	rangeVals := []int64{-128, -1, 0, 5, 1 << 20}
	otherMaps := []map[uint64]int64{
		{},
		{0: 1},
		{0: -1, 5: 5},
		{0: 1 << 40, 5: -(1 << 20), 1 << 40: 0},
		{5: 127, 1 << 40: -128},
		{0: 3, 5: -3, 1 << 40: 3},
	}
	batchLists := [][]int64{{0, 1}, {-1, -5, -128}, {5, 127, 1 << 20, 1 << 40}, {0, 1, -1, 5, -5, 127, -128, 1 << 20, -(1 << 20), 1 << 40}, {2, 3, -7}}
	worker := 0
	nextWorker := func() int { worker = (worker + 1) % 4; return worker }

	// enumerate the stored maps: index 0 = absent, 1..10 = value
	n := len(c20Vals) + 1
	for code := 0; code < n*n*n; code++ {
		m := map[uint64]int64{}
		desc := ""
		for k, x := 0, code; k < 3; k, x = k+1, x/n {
			if d := x % n; d > 0 {
				m[c20Cols[k]] = c20Vals[d-1]
				desc += fmt.Sprintf(" %d:%d", c20Cols[k], c20Vals[d-1])
			}
		}
		b := c20Build(m)
		fail := func(format string, a ...interface{}) {
			t.Fatalf("FAILING-INPUT property=C20 index{%s }: %s", desc, fmt.Sprintf(format, a...))
		}
		unchanged := func(what string) {
			for _, c := range c20Cols {
				want, wantOK := m[c]
				got, ok := b.GetValue(c)
				if ok != wantOK || (ok && got != want) {
					fail("after mutating the result of %s the index changed: GetValue(%d) = (%d,%v), want (%d,%v)", what, c, got, ok, want, wantOK)
				}
			}
		}
		// found-sets: nil, all, a proper subset, a single column (of EXISTING columns)
		exist := []uint64{}
		for _, c := range c20Cols {
			if _, ok := m[c]; ok {
				exist = append(exist, c)
			}
		}
		type fsT struct {
			name string
			mk   func() *Bitmap
			in   func(c uint64) bool
		}
		fss := []fsT{{"nil", func() *Bitmap { return nil }, func(uint64) bool { return true }},
			{"all", func() *Bitmap { return c20Set(exist...) }, func(uint64) bool { return true }}}
		if len(exist) >= 2 {
			sub := exist[1:]
			fss = append(fss, fsT{fmt.Sprintf("%v", sub), func() *Bitmap { return c20Set(sub...) }, func(c uint64) bool { return c != exist[0] }})
		}
		if len(exist) >= 1 {
			one := exist[len(exist)-1]
			fss = append(fss, fsT{fmt.Sprintf("[%d]", one), func() *Bitmap { return c20Set(one) }, func(c uint64) bool { return c == one }})
		}
		bitCount := b.BitCount()

		// --- CompareValue
		for _, fs := range fss {
			for _, op := range ops {
				for _, a := range c20Vals {
					if !bsi64ValueFitsBitCount(a, bitCount) {
						continue
					}
					want := map[uint64]bool{}
					for c, v := range m {
						if fs.in(c) && c20Cmp(op, v, a, 0) {
							want[c] = true
						}
					}
					w := nextWorker()
					got := b.CompareValue(w, op, a, 0, fs.mk())
					cases++
					if msg := c20Same(got, want); msg != "" {
						fail("CompareValue(%d, %s, %d, 0, foundSet=%s): %s", w, opName[op], a, fs.name, msg)
					}
					got.Add(77)
					got.Remove(0)
				}
			}
			pairs := [][2]int64{{5, -1}}
			for i, a := range rangeVals {
				for _, e := range rangeVals[i:] {
					pairs = append(pairs, [2]int64{a, e})
				}
			}
			for _, p := range pairs {
				if !bsi64ValueFitsBitCount(p[0], bitCount) || !bsi64ValueFitsBitCount(p[1], bitCount) {
					continue
				}
				want := map[uint64]bool{}
				for c, v := range m {
					if fs.in(c) && c20Cmp(RANGE, v, p[0], p[1]) {
						want[c] = true
					}
				}
				w := nextWorker()
				got := b.CompareValue(w, RANGE, p[0], p[1], fs.mk())
				cases++
				if msg := c20Same(got, want); msg != "" {
					fail("CompareValue(%d, RANGE, %d, %d, foundSet=%s): %s", w, p[0], p[1], fs.name, msg)
				}
				got.Add(77)
			}
		}
		unchanged("CompareValue")

		// --- CompareBSI
		for oi, om := range otherMaps {
			o := c20Build(om)
			for _, fs := range fss[:min(3, len(fss))] {
				if fs.name == "all" {
					continue
				}
				for _, op := range ops {
					want := map[uint64]bool{}
					for c, v := range m {
						if ov, ok := om[c]; ok && fs.in(c) && c20Cmp(op, v, ov, 0) {
							want[c] = true
						}
					}
					got := b.CompareBSI(op, o, fs.mk())
					cases++
					if msg := c20Same(got, want); msg != "" {
						fail("CompareBSI(%s, other#%d %v, foundSet=%s): %s", opName[op], oi, om, fs.name, msg)
					}
					got.Add(77)
					got.Remove(0)
				}
			}
			for c, v := range om { // the argument is not changed either
				if g, ok := o.GetValue(c); !ok || g != v {
					fail("CompareBSI changed its argument other#%d: GetValue(%d) = (%d,%v), want (%d,true)", oi, c, g, ok, v)
				}
			}
		}
		unchanged("CompareBSI")

		// --- BatchEqual
		lists := append([][]int64{}, batchLists...)
		for _, v := range c20Vals {
			lists = append(lists, []int64{v})
		}
		for _, l := range lists {
			want := map[uint64]bool{}
			for c, v := range m {
				for _, x := range l {
					if v == x {
						want[c] = true
					}
				}
			}
			w := nextWorker()
			got := b.BatchEqual(w, l)
			cases++
			if msg := c20Same(got, want); msg != "" {
				fail("BatchEqual(%d, %v): %s", w, l, msg)
			}
			got.Add(77)
			got.Remove(0)
		}
		unchanged("BatchEqual")

		// --- MinMax, Sum
		for _, fs := range fss {
			var vals []int64
			for c, v := range m {
				if fs.in(c) {
					vals = append(vals, v)
				}
			}
			sum := int64(0)
			for _, v := range vals {
				sum += v
			}
			gs, gc := b.Sum(fs.mk())
			cases++
			if gs != sum || gc != uint64(len(vals)) {
				fail("Sum(foundSet=%s) = (%d,%d), want (%d,%d)", fs.name, gs, gc, sum, len(vals))
			}
			if len(vals) == 0 {
				continue
			}
			mn, mx := vals[0], vals[0]
			for _, v := range vals {
				if v < mn {
					mn = v
				}
				if v > mx {
					mx = v
				}
			}
			w := nextWorker()
			if g := b.MinMax(w, MIN, fs.mk()); g != mn {
				fail("MinMax(%d, MIN, foundSet=%s) = %d, want %d", w, fs.name, g, mn)
			}
			if g := b.MinMax(w, MAX, fs.mk()); g != mx {
				fail("MinMax(%d, MAX, foundSet=%s) = %d, want %d", w, fs.name, g, mx)
			}
			cases += 2
		}

		// --- Transpose / IntersectAndTranspose / TransposeWithCounts, every worker count
		for w := 0; w <= 3; w++ {
			for _, fs := range fss {
				want := map[uint64]bool{}
				counts := map[uint64]int64{}
				for c, v := range m {
					if fs.in(c) {
						want[uint64(v)] = true
						counts[uint64(v)]++
					}
				}
				got := b.IntersectAndTranspose(w, fs.mk())
				cases++
				if msg := c20Same(got, want); msg != "" {
					fail("IntersectAndTranspose(%d, foundSet=%s): %s", w, fs.name, msg)
				}
				got.Add(78)
				filter := NewBitmap()
				for _, v := range c20Vals {
					filter.Add(uint64(v))
				}
				tc := b.TransposeWithCounts(w, fs.mk(), filter)
				cases++
				if tc.GetCardinality() != uint64(len(counts)) {
					fail("TransposeWithCounts(%d, foundSet=%s, all values): %d distinct values, want %d", w, fs.name, tc.GetCardinality(), len(counts))
				}
				for v, k := range counts {
					if g, ok := tc.GetValue(v); !ok || g != k {
						fail("TransposeWithCounts(%d, foundSet=%s, all values): count of value %d = (%d,%v), want (%d,true)", w, fs.name, int64(v), g, ok, k)
					}
				}
			}
		}
		if w := (code % 4); true {
			want := map[uint64]bool{}
			for _, v := range m {
				want[uint64(v)] = true
			}
			_ = w
			got := b.Transpose()
			cases++
			if msg := c20Same(got, want); msg != "" {
				fail("Transpose(): %s", msg)
			}
			got.Add(78)
		}
		unchanged("Transpose")
	}
	t.Logf("BOUNDED-CASES %d", cases)
}
