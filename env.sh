# sourced by every command of /verif: offline Go 1.24.4 toolchain (the one /repo's go.mod pins)
TC=/root/go/pkg/mod/golang.org/toolchain@v0.0.1-go1.24.4.linux-amd64
if [ -d "$TC" ]; then export PATH="$TC/bin:$PATH"; export GOROOT="$TC"; fi
export GOTOOLCHAIN=local GOFLAGS=-mod=mod GOPROXY=off GOSUMDB=off GONOSUMDB='*' GONOSUMCHECK=1 GOFLAGS=-mod=mod
export VERIF_SCRATCH="${VERIF_SCRATCH:-/var/tmp}"
