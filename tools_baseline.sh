#!/bin/sh
# usage: tools_baseline.sh [repo]   runs the repository's pinned test command (guard OFF = no build tags) and
# compares the passing tests with the stable baseline in /root/.vp/BASELINE.json. exit 0 iff every stable test passes.
REPO=${1:-/repo}
OUT=$(mktemp ${VERIF_SCRATCH:-/var/tmp}/baseline.XXXXXX.json)
trap 'rm -f $OUT' EXIT
. /verif/env.sh
(cd $REPO && go test -json -vet=off -count=1 -timeout 25m ./... > $OUT 2>/dev/null)
python3 - "$OUT" <<'PY'
import json,sys
base=json.load(open('/root/.vp/BASELINE.json'))
stable=set(base['stable_pass'])
passed=set(); failed=set()
for line in open(sys.argv[1], errors='replace'):
    line=line.strip()
    if not line.startswith('{'): continue
    try: ev=json.loads(line)
    except Exception: continue
    a=ev.get('Action'); t=ev.get('Test')
    if t is None or a not in ('pass','fail'): continue
    tid=ev.get('Package','')+'::'+t
    (passed if a=='pass' else failed).add(tid)
passed-=failed
missing=sorted(stable-passed)
print(f"baseline: {len(stable)} stable tests, {len(stable&passed)} pass now, {len(missing)} missing/failing")
for m in missing[:40]: print("  NOT PASSING:", m)
sys.exit(1 if missing else 0)
PY
