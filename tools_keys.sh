#!/bin/sh
# usage: tools_keys.sh <contract file> : comma-separated keys of the contracts in that file
f=$1; pkg=roaring
case $f in */internal/*) pkg=internal;; */roaring64/*) pkg=roaring64;; */BitSliceIndexing/*) pkg=bsi;; esac
grep -E "^//@ (contract|purelemma) " $f | sed -E 's/^\/\/@ (contract|purelemma) +([A-Za-z0-9_.]+).*/\2/' | sed "s/^/$pkg./" | tr '\n' ',' | sed 's/,$//'
