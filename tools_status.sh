#!/bin/bash
# usage: tools_status.sh <outdir> [contract file ...]   (default: every zz_*_verif.go under /repo)
# Runs `rvc verify` over the keys of each contract file in batches and writes one JSON per batch into <outdir>
# (input of tools_props.py). Unannotated implementations of interface methods are covered by a final `-all` pass
# restricted to keys not seen before.
OUT=${1:-/var/tmp/status}; shift
mkdir -p $OUT
FILES=${@:-$(ls /repo/zz_*_verif.go /repo/*/zz_*_verif.go) IMPL}
T=${STATUS_T:-20}
for f in $FILES; do
  if [ "$f" = IMPL ]; then
    b=impl; /verif/bin/rvc verify -listimpl | grep "^[a-z0-9]*\." > $OUT/$b.keys
  else
  b=$(basename $(dirname $f))_$(basename $f .go)
  /verif/tools_keys.sh $f | tr ',' '\n' | grep -v "^$" | sort -u > $OUT/$b.keys
  fi
  if [ -s /verif/spec/status_exclude.txt ]; then grep -vxFf <(grep -v "^#" /verif/spec/status_exclude.txt) $OUT/$b.keys > $OUT/$b.keys.f; mv $OUT/$b.keys.f $OUT/$b.keys; fi
  split -l ${STATUS_BATCH:-25} -d $OUT/$b.keys $OUT/$b.part.
  for part in $OUT/$b.part.*; do
    keys=$(tr '\n' ',' < $part | sed 's/,$//')
    n=$(basename $part)
    [ -s $OUT/$n.json ] && [ -z "$STATUS_FORCE" ] && continue
    timeout ${STATUS_WALL:-1800} /verif/bin/rvc verify -x -f "$keys" -t $T -json $OUT/$n.json > $OUT/$n.log 2>&1
    if [ $? = 124 ]; then
      # a key of this batch runs away (loops without invariants inlined and unrolled): key by key, with a wall-clock limit each
      rm -f $OUT/$n.json; k=0
      for key in $(cat $part); do
        k=$((k+1))
        timeout ${STATUS_WALL1:-420} /verif/bin/rvc verify -x -f "$key" -t $T -json $OUT/$n.k$k.json > $OUT/$n.k$k.log 2>&1 || { [ $? = 124 ] && { rm -f $OUT/$n.k$k.json; echo "$key" >> $OUT/runaway.txt; echo "  runaway: $key"; }; }
      done
      cat $OUT/$n.k*.log > $OUT/$n.log 2>/dev/null
    fi
    echo "$(date +%T) $n: $(grep -c '^OK' $OUT/$n.log) ok, $(grep -c '^FAIL' $OUT/$n.log) fail"
  done
done
