#!/bin/sh
# usage: tools_mut.sh <file> <python-replace-old> <python-replace-new> <func-filter> [extra rvc args]
# applies one textual mutation on a scratch copy of /repo and runs rvc verify on it (must-fail development helper)
set -e
D=${VERIF_SCRATCH:-/var/tmp}/mut.$$
rm -rf $D; rsync -a --exclude .git /repo/ $D/
python3 - "$D/$1" "$2" "$3" <<'PY'
import sys
p,old,new=sys.argv[1:4]
s=open(p).read()
assert old in s, "pattern not found"
s=s.replace(old,new,1)
open(p,'w').write(s)
PY
shift 3
F=$1; shift
/verif/bin/rvc verify -repo $D -f "$F" -t 8 "$@" 2>&1 | grep -v "^    unsat" | head -12 || true
rm -rf $D
