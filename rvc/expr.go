package main

// Expression evaluation: Go expressions -> SMT terms, with explicit panics
// (index, slice, nil, division) as obligations.

import (
	"fmt"
	"go/ast"
	"go/constant"
	"go/token"
	"go/types"
	"math/big"
	"strings"
)

func (e *Exec) typeOf(x ast.Expr) types.Type {
	if tv, ok := e.info.Types[x]; ok && tv.Type != nil {
		return tv.Type
	}
	if id, ok := x.(*ast.Ident); ok {
		if o := e.info.ObjectOf(id); o != nil {
			return o.Type()
		}
	}
	return types.Typ[types.Invalid]
}

func (e *Exec) constTerm(v constant.Value, t types.Type) (Term, bool) {
	switch v.Kind() {
	case constant.Bool:
		return BoolLit(constant.BoolVal(v)), true
	case constant.Int:
		bi, ok := constant.Val(v).(*big.Int)
		var s string
		if ok {
			s = bi.String()
		} else if i64, ok2 := constant.Int64Val(v); ok2 {
			s = fmt.Sprint(i64)
		} else {
			return Term{}, false
		}
		if e.isWord(t) {
			n := new(big.Int)
			n.SetString(s, 10)
			if n.Sign() < 0 {
				n.Add(n, new(big.Int).Lsh(big.NewInt(1), 64))
			}
			return Term{fmt.Sprintf("#x%016x", n), SBV64}, true
		}
		return IntLitS(s), true
	case constant.String:
		// strings are opaque; give each literal a stable code
		return IntLit(int64(len(constant.StringVal(v)) + 1000)), true
	case constant.Float:
		return IntLit(0), true
	}
	return Term{}, false
}

func (e *Exec) kindCode(t types.Type) int {
	k := typeKey(t)
	if c, ok := fixedKinds[k]; ok {
		return c
	}
	if c, ok := e.kindCodes[k]; ok {
		return c
	}
	c := 10 + len(e.kindCodes)
	e.kindCodes[k] = c
	return c
}

var fixedKinds = map[string]int{"p_arrayContainer": 1, "p_bitmapContainer": 2, "p_runContainer16": 3}

func isInterface(t types.Type) bool {
	_, ok := types.Unalias(t).Underlying().(*types.Interface)
	return ok
}

// coerce converts a value of static type from to static type to (assignability
// conversions only: concrete -> interface, untyped nil).
func (e *Exec) coerce(st *State, v Term, from, to types.Type) Term {
	if to == nil || from == nil {
		return v
	}
	if isInterface(to) && !isInterface(from) {
		if b, ok := from.Underlying().(*types.Basic); ok && b.Kind() == types.UntypedNil {
			return NilCont
		}
		if v.Sort == SInt {
			if _, isPtr := from.Underlying().(*types.Pointer); isPtr {
				return st.contOf(e.kindCode(from), v)
			}
		}
		// non-pointer dynamic value: opaque box
		r := e.fresh("box", SInt)
		e.assumeGlobal(Gt(r, IntLit(0)))
		return MkCont(IntLit(int64(e.kindCode(from))), r)
	}
	want := e.sortOf(to)
	if v.Sort != want {
		if b, ok := from.Underlying().(*types.Basic); ok && b.Kind() == types.UntypedNil {
			return e.zero(to)
		}
		return e.toSort(v, want)
	}
	return v
}

func (e *Exec) evalAs(st *State, x ast.Expr, to types.Type) Term {
	v := e.eval(st, x)
	return e.coerce(st, v, e.typeOf(x), to)
}

func (e *Exec) eval(st *State, x ast.Expr) Term {
	if st.dead {
		return e.zero(e.typeOf(x))
	}
	if tv, ok := e.info.Types[x]; ok && tv.Value != nil {
		if t, ok := e.constTerm(tv.Value, tv.Type); ok {
			return t
		}
	}
	switch x := x.(type) {
	case *ast.ParenExpr:
		return e.eval(st, x.X)
	case *ast.Ident:
		return e.evalIdent(st, x)
	case *ast.BasicLit:
		e.unsupportedf(x.Pos(), "literal %s", x.Value)
		return e.zero(e.typeOf(x))
	case *ast.UnaryExpr:
		return e.evalUnary(st, x)
	case *ast.BinaryExpr:
		return e.evalBinary(st, x)
	case *ast.CallExpr:
		rs := e.evalCall(st, x)
		if len(rs) == 0 {
			return IntLit(0)
		}
		return rs[0]
	case *ast.IndexExpr:
		return e.evalIndex(st, x)
	case *ast.SliceExpr:
		return e.evalSlice(st, x)
	case *ast.SelectorExpr:
		return e.evalSelector(st, x)
	case *ast.StarExpr:
		p := e.eval(st, x.X)
		e.oblige(st, "nil", "", Not(Eq(p, IntLit(0))), "nil dereference", x.Pos())
		return e.loadObject(st, deref(e.typeOf(x.X)), p)
	case *ast.CompositeLit:
		return e.evalComposite(st, x)
	case *ast.TypeAssertExpr:
		v := e.eval(st, x.X)
		if x.Type == nil {
			return v
		}
		to := e.typeOf(x.Type)
		if isInterface(to) {
			return v
		}
		e.oblige(st, "assert", "", Eq(CKind(v), IntLit(int64(e.kindCode(to)))), "type assertion", x.Pos())
		e.assume(st, Eq(CKind(v), IntLit(int64(e.kindCode(to)))))
		st.learnKind(v, e.kindCode(to))
		return CRef(v)
	case *ast.FuncLit:
		e.unsupportedf(x.Pos(), "function literal")
		return e.fresh("funclit", SInt)
	case *ast.KeyValueExpr:
		return e.eval(st, x.Value)
	}
	e.unsupportedf(x.Pos(), "expression %T", x)
	return e.havocValue(st, "unsup", e.typeOf(x))
}

// havocValue returns an arbitrary value of the given type.
func (e *Exec) havocValue(st *State, name string, t types.Type) Term {
	v := e.fresh(name, e.sortOf(t))
	e.assumeGlobal(e.rangeFact(v, t))
	e.assume(st, e.allocFact(v, t, e.allocGet(st)))
	return v
}

func (e *Exec) evalIdent(st *State, id *ast.Ident) Term {
	obj := e.info.ObjectOf(id)
	switch o := obj.(type) {
	case *types.Nil:
		return e.zero(e.typeOf(id))
	case *types.Const:
		if t, ok := e.constTerm(o.Val(), o.Type()); ok {
			return t
		}
	case *types.Var:
		if o.Name() == "_" {
			return e.zero(o.Type())
		}
		if e.boxed[o] {
			ref := st.vars[o]
			return e.loadObject(st, o.Type(), ref)
		}
		if v, ok := st.vars[o]; ok {
			return v
		}
		// package-level variable: a global cell
		if o.Parent() == o.Pkg().Scope() {
			return e.globalVar(st, o)
		}
		e.unsupportedf(id.Pos(), "variable %s not in scope of the symbolic state", o.Name())
		v := e.havocValue(st, o.Name(), o.Type())
		st.vars[o] = v
		return v
	case *types.Func:
		return e.fresh("funcval_"+o.Name(), SInt)
	}
	if id.Name == "true" {
		return True
	}
	if id.Name == "false" {
		return False
	}
	if id.Name == "nil" {
		return e.zero(e.typeOf(id))
	}
	e.unsupportedf(id.Pos(), "identifier %s", id.Name)
	return e.havocValue(st, id.Name, e.typeOf(id))
}

// globalVar models a package-level variable as an unknown but fixed value
// (reads only; writes are unsupported).
func (e *Exec) globalVar(st *State, o *types.Var) Term {
	name := "G_" + o.Pkg().Name() + "_" + o.Name()
	s := e.sortOf(o.Type())
	if !e.declared[name] {
		e.declare(name, s)
		// facts about a package-level value hold on every path
		if f := e.rangeFact(Term{name, s}, o.Type()); f.S != "true" {
			e.globalAxiom("(assert " + f.S + ")")
		}
		if f := e.allocFact(Term{name, s}, o.Type(), e.alloc0); f.S != "true" {
			e.globalAxiom("(assert " + f.S + ")")
		}
		if isInterface(o.Type()) && namedName(o.Type()) == "error" {
			// package-level error values (errors.New / fmt.Errorf initialisers) are non-nil
			e.globalAxiom("(assert " + Not(Eq(CKind(Term{name, s}), IntLit(0))).S + ")")
			e.note("global", "package-level error variables are non-nil")
		}
		e.note("global", fmt.Sprintf("package variable %s.%s read as an arbitrary constant", o.Pkg().Name(), o.Name()))
	}
	return Term{name, s}
}

// loadObject reads a whole value of type t stored at reference ref (struct objects
// are stored field-wise; other boxed values in a cell memory).
func (e *Exec) loadObject(st *State, t types.Type, ref Term) Term {
	if s, ok := types.Unalias(t).Underlying().(*types.Struct); ok {
		var fs []Term
		for i := 0; i < s.NumFields(); i++ {
			f := s.Field(i)
			fs = append(fs, e.loadFieldDeep(st, t, f, ref))
		}
		return e.mkStruct(t, fs)
	}
	key := "C_" + typeKey(t)
	e.cellInit(key, t)
	return Select(e.heapGet(st, key), ref, e.sortOf(t))
}

func (e *Exec) cellInit(key string, t types.Type) {
	if !e.declared["heap:"+key] {
		vs := e.sortOf(t)
		e.heapMetas[key] = heapMeta{ArraySort(SInt, vs), vs, t}
		e.mark("heap:" + key)
		e.declareHeapVersion(key, key+"!0")
	}
}

func (e *Exec) storeObject(st *State, t types.Type, ref Term, v Term) {
	if s, ok := types.Unalias(t).Underlying().(*types.Struct); ok {
		for i := 0; i < s.NumFields(); i++ {
			f := s.Field(i)
			e.storeFieldDeep(st, t, f, ref, e.structField(t, v, i))
		}
		return
	}
	key := "C_" + typeKey(t)
	e.cellInit(key, t)
	e.checkFrame(st, key, ref, Term{}, false, e.curPos)
	st.heap[key] = e.bindHeap(key, Store(e.heapGet(st, key), ref, v))
}

// embedded struct fields held by value live at the same reference as their parent
// (field maps are per struct type, so this is injective as long as a struct type
// does not contain two fields of the same struct type; checked).
func (e *Exec) loadFieldDeep(st *State, structT types.Type, f *types.Var, ref Term) Term {
	if fs, ok := types.Unalias(f.Type()).Underlying().(*types.Struct); ok && !isValueStruct(f.Type()) {
		_ = fs
		return e.loadObject(st, f.Type(), e.subRef(structT, f, ref))
	}
	return e.loadField(st, structT, f, ref)
}

func (e *Exec) storeFieldDeep(st *State, structT types.Type, f *types.Var, ref Term, v Term) {
	if _, ok := types.Unalias(f.Type()).Underlying().(*types.Struct); ok && !isValueStruct(f.Type()) {
		e.storeObject(st, f.Type(), e.subRef(structT, f, ref), v)
		return
	}
	e.checkFrame(st, fieldKey(structT, f.Name()), ref, Term{}, false, e.curPos)
	e.storeField(st, structT, f, ref, v)
}

// isValueStruct: small structs that are always handled as values (stored as one
// datatype value inside their parent), e.g. interval16.
func isValueStruct(t types.Type) bool {
	switch namedName(t) {
	case "interval16", "searchResult":
		return true
	}
	return false
}

// subRef is the reference of a struct-typed field held by value inside the object at ref.
func (e *Exec) subRef(structT types.Type, f *types.Var, ref Term) Term {
	return ref // same address space per struct type; see loadFieldDeep
}

func (e *Exec) evalUnary(st *State, x *ast.UnaryExpr) Term {
	switch x.Op {
	case token.AND:
		return e.addressOf(st, x.X)
	case token.NOT:
		return Not(e.eval(st, x.X))
	case token.SUB:
		v := e.eval(st, x.X)
		t := e.typeOf(x)
		if v.Sort == SBV64 {
			return mk(SBV64, "bvneg", v)
		}
		return e.wrap(mk(SInt, "-", v), t)
	case token.ADD:
		return e.eval(st, x.X)
	case token.XOR:
		v := e.eval(st, x.X)
		t := e.typeOf(x)
		if v.Sort == SBV64 {
			return mk(SBV64, "bvnot", v)
		}
		if b, ok := t.Underlying().(*types.Basic); ok {
			if _, hi, ok2 := intRange(b); ok2 && b.Info()&types.IsUnsigned != 0 {
				return Sub(IntLitS(hi), v)
			}
			return Sub(IntLit(-1), v) // signed: ^x == -x-1
		}
	case token.ARROW:
		e.unsupportedf(x.Pos(), "channel receive")
		return e.havocValue(st, "recv", e.typeOf(x))
	}
	e.unsupportedf(x.Pos(), "unary %s", x.Op)
	return e.havocValue(st, "unary", e.typeOf(x))
}

// addressOf evaluates &x.
func (e *Exec) addressOf(st *State, x ast.Expr) Term {
	// &pkgVar (also implicit, for pointer-receiver methods of package-level variables): one constant address per variable
	var gid *ast.Ident
	switch y := x.(type) {
	case *ast.Ident:
		gid = y
	case *ast.SelectorExpr:
		if _, isField := e.info.Selections[y]; !isField {
			gid = y.Sel
		}
	}
	if gid != nil {
		if o, ok := e.info.ObjectOf(gid).(*types.Var); ok && o.Pkg() != nil && o.Parent() == o.Pkg().Scope() {
			name := "gaddr_" + sanitize(o.Pkg().Name()+"_"+o.Name())
			if !e.declared["fun:"+name] {
				e.rawDecl("fun:"+name, "(declare-fun "+name+" () Int)")
				e.globalAxiom("(assert (> " + name + " 0))")
			}
			return Term{name, SInt}
		}
	}
	switch y := x.(type) {
	case *ast.ParenExpr:
		return e.addressOf(st, y.X)
	case *ast.CompositeLit:
		t := e.typeOf(y)
		v := e.evalComposite(st, y)
		ref := e.allocRef(st, typeKey(t))
		e.noFrame = true
		e.storeObject(st, t, ref, v)
		e.noFrame = false
		return ref
	case *ast.Ident:
		if o, ok := e.info.ObjectOf(y).(*types.Var); ok && e.boxed[o] {
			return st.vars[o]
		}
	case *ast.SelectorExpr:
		// &p.f where f is a struct held by value inside *p
		if sel, ok := e.info.Selections[y]; ok && sel.Kind() == types.FieldVal {
			base, baseT := e.evalBaseRef(st, y.X)
			if base.S != "" {
				// walk the (possibly embedded) path
				ref, t := base, baseT
				idx := sel.Index()
				for k, i := range idx {
					s := types.Unalias(t).Underlying().(*types.Struct)
					f := s.Field(i)
					if k == len(idx)-1 {
						if _, isStruct := types.Unalias(f.Type()).Underlying().(*types.Struct); isStruct && !isValueStruct(f.Type()) {
							return e.subRef(t, f, ref)
						}
						break
					}
					if p, isPtr := f.Type().Underlying().(*types.Pointer); isPtr {
						ref = e.loadField(st, t, f, ref)
						t = p.Elem()
					} else {
						ref = e.subRef(t, f, ref)
						t = f.Type()
					}
				}
			}
		}
	case *ast.IndexExpr:
		// &s[i] for slices of structs: the element object's reference
		if sl, ok := types.Unalias(e.typeOf(y.X)).Underlying().(*types.Slice); ok && isObjElem(sl.Elem()) {
			sv := e.eval(st, y.X)
			i := e.evalInt(st, y.Index)
			e.oblige(st, "idx", "", And(Le(IntLit(0), i), Lt(i, SLen(sv))), "index in range: "+e.src(y), y.Pos())
			return e.elemRef(sv, i)
		}
	}
	e.unsupportedf(x.Pos(), "address-of %T", x)
	return e.fresh("addr", SInt)
}

// evalBaseRef evaluates an expression denoting a struct object in memory and
// returns its reference and struct type; Term{} if x is a struct value.
func (e *Exec) evalBaseRef(st *State, x ast.Expr) (Term, types.Type) {
	t := e.typeOf(x)
	if p, ok := types.Unalias(t).Underlying().(*types.Pointer); ok {
		v := e.eval(st, x)
		e.oblige(st, "nil", "", Not(Eq(v, IntLit(0))), "nil dereference", x.Pos())
		return v, p.Elem()
	}
	switch y := x.(type) {
	case *ast.ParenExpr:
		return e.evalBaseRef(st, y.X)
	case *ast.StarExpr:
		v := e.eval(st, y.X)
		e.oblige(st, "nil", "", Not(Eq(v, IntLit(0))), "nil dereference", x.Pos())
		return v, deref(e.typeOf(y.X))
	case *ast.Ident:
		if o, ok := e.info.ObjectOf(y).(*types.Var); ok && e.boxed[o] {
			return st.vars[o], o.Type()
		}
	case *ast.IndexExpr:
		if sl, ok := types.Unalias(e.typeOf(y.X)).Underlying().(*types.Slice); ok && isObjElem(sl.Elem()) {
			sv := e.eval(st, y.X)
			i := e.evalInt(st, y.Index)
			e.oblige(st, "idx", "", And(Le(IntLit(0), i), Lt(i, SLen(sv))), "index in range: "+e.src(y), y.Pos())
			return e.elemRef(sv, i), sl.Elem()
		}
	case *ast.SelectorExpr:
		if sel, ok := e.info.Selections[y]; ok && sel.Kind() == types.FieldVal {
			if _, isStruct := types.Unalias(t).Underlying().(*types.Struct); isStruct && !isValueStruct(t) {
				base, baseT := e.evalBaseRef(st, y.X)
				if base.S != "" {
					ref, bt := base, baseT
					for _, i := range sel.Index() {
						s := types.Unalias(bt).Underlying().(*types.Struct)
						f := s.Field(i)
						if p, isPtr := f.Type().Underlying().(*types.Pointer); isPtr {
							ref = e.loadField(st, bt, f, ref)
							bt = p.Elem()
						} else {
							ref = e.subRef(bt, f, ref)
							bt = f.Type()
						}
					}
					return ref, bt
				}
			}
		}
	}
	return Term{}, t
}

func (e *Exec) evalSelector(st *State, x *ast.SelectorExpr) Term {
	sel, ok := e.info.Selections[x]
	if !ok {
		// qualified identifier pkg.Name
		obj := e.info.ObjectOf(x.Sel)
		switch o := obj.(type) {
		case *types.Const:
			if t, ok := e.constTerm(o.Val(), o.Type()); ok {
				return t
			}
		case *types.Var:
			return e.globalVar(st, o)
		}
		e.unsupportedf(x.Pos(), "qualified identifier %s", x.Sel.Name)
		return e.havocValue(st, x.Sel.Name, e.typeOf(x))
	}
	if sel.Kind() != types.FieldVal {
		e.unsupportedf(x.Pos(), "method value %s", x.Sel.Name)
		return e.fresh("methodval", SInt)
	}
	base, baseT := e.evalBaseRef(st, x.X)
	if base.S != "" {
		ref, t := base, baseT
		idx := sel.Index()
		for k, i := range idx {
			s := types.Unalias(t).Underlying().(*types.Struct)
			f := s.Field(i)
			if k == len(idx)-1 {
				v := e.loadFieldDeep(st, t, f, ref)
				if isRefType(f.Type()) {
					// heap invariant: every stored reference is allocated
					e.assume(st, e.allocFact(v, f.Type(), e.allocGet(st)))
				}
				return v
			}
			if p, isPtr := f.Type().Underlying().(*types.Pointer); isPtr {
				ref = e.loadField(st, t, f, ref)
				e.oblige(st, "nil", "", Not(Eq(ref, IntLit(0))), "nil dereference (embedded)", x.Pos())
				t = p.Elem()
			} else if _, isStruct := types.Unalias(f.Type()).Underlying().(*types.Struct); isStruct && !isValueStruct(f.Type()) {
				ref = e.subRef(t, f, ref)
				t = f.Type()
			} else {
				// value struct in the middle of the path
				v := e.loadField(st, t, f, ref)
				vt := f.Type()
				for _, j := range idx[k+1:] {
					fs := types.Unalias(vt).Underlying().(*types.Struct)
					v = e.structField(vt, v, j)
					vt = fs.Field(j).Type()
				}
				return v
			}
		}
	}
	// struct value
	v := e.eval(st, x.X)
	vt := e.typeOf(x.X)
	for _, i := range sel.Index() {
		s, ok := types.Unalias(vt).Underlying().(*types.Struct)
		if !ok {
			e.unsupportedf(x.Pos(), "field path through %s", vt)
			return e.havocValue(st, "fld", e.typeOf(x))
		}
		v = e.structField(vt, v, i)
		vt = s.Field(i).Type()
	}
	return v
}

func (e *Exec) evalIndex(st *State, x *ast.IndexExpr) Term {
	bt := types.Unalias(e.typeOf(x.X)).Underlying()
	switch t := bt.(type) {
	case *types.Slice:
		s := e.eval(st, x.X)
		i := e.evalInt(st, x.Index)
		e.oblige(st, "idx", "", And(Le(IntLit(0), i), Lt(i, SLen(s))), "index in range: "+e.src(x), x.Pos())
		v := e.loadElem(st, s, t.Elem(), i)
		v = e.toSort(v, e.sortOf(t.Elem()))
		if v.Sort == SSlice || v.Sort == SCont || v.Sort == SInt && isRefType(t.Elem()) {
			e.assume(st, e.allocFact(v, t.Elem(), e.allocGet(st)))
		}
		return v
	case *types.Array:
		a := e.eval(st, x.X)
		i := e.evalInt(st, x.Index)
		e.oblige(st, "idx", "", And(Le(IntLit(0), i), Lt(i, IntLit(t.Len()))), "array index in range: "+e.src(x), x.Pos())
		return e.toSort(Select(a, i, e.elemSort(t.Elem())), e.sortOf(t.Elem()))
	case *types.Pointer:
		if at, ok := t.Elem().Underlying().(*types.Array); ok {
			_ = at
		}
	case *types.Map:
		e.unsupportedf(x.Pos(), "map index")
		return e.havocValue(st, "mapidx", e.typeOf(x))
	case *types.Basic: // string index
		e.unsupportedf(x.Pos(), "string index")
		return e.havocValue(st, "stridx", e.typeOf(x))
	}
	e.unsupportedf(x.Pos(), "index of %s", bt)
	return e.havocValue(st, "idx", e.typeOf(x))
}

func isRefType(t types.Type) bool {
	switch types.Unalias(t).Underlying().(type) {
	case *types.Pointer, *types.Slice, *types.Interface:
		return true
	}
	return false
}

// evalInt evaluates an integer expression to sort Int (index / length positions).
func (e *Exec) evalInt(st *State, x ast.Expr) Term {
	v := e.eval(st, x)
	return e.toSort(v, SInt)
}

func (e *Exec) evalSlice(st *State, x *ast.SliceExpr) Term {
	bt := types.Unalias(e.typeOf(x.X)).Underlying()
	if at, ok := bt.(*types.Array); ok {
		// slice of an array (e.g. a [4]byte scratch field): modelled as a fresh buffer of that size with arbitrary
		// contents; writes through it are not reflected back into the array (assumption, listed)
		e.note("array-slice", e.fn.Key+": a slice of an array value is modelled as a fresh buffer (aliasing with the array is not tracked)")
		e.eval(st, x.X)
		lo := IntLit(0)
		if x.Low != nil {
			lo = e.evalInt(st, x.Low)
		}
		hi := IntLit(at.Len())
		if x.High != nil {
			hi = e.evalInt(st, x.High)
		}
		e.oblige(st, "slice", "", And(Le(IntLit(0), lo), Le(lo, hi), Le(hi, IntLit(at.Len()))), "slice bounds (array): "+e.src(x), x.Pos())
		ref := e.allocRef(st, "arrslice")
		return e.bind("sl", MkSlice(ref, IntLit(0), Sub(hi, lo), Sub(IntLit(at.Len()), lo)))
	}
	if _, ok := bt.(*types.Slice); !ok {
		if b, isB := bt.(*types.Basic); isB && b.Info()&types.IsString != 0 {
			e.unsupportedf(x.Pos(), "string slicing")
			return e.havocValue(st, "strslice", e.typeOf(x))
		}
		e.unsupportedf(x.Pos(), "slicing of %s", bt)
		return e.havocValue(st, "slice", e.typeOf(x))
	}
	s := e.eval(st, x.X)
	lo := IntLit(0)
	if x.Low != nil {
		lo = e.evalInt(st, x.Low)
	}
	hi := SLen(s)
	if x.High != nil {
		hi = e.evalInt(st, x.High)
	}
	mx := SCap(s)
	if x.Max != nil {
		mx = e.evalInt(st, x.Max)
		e.oblige(st, "slice", "", And(Le(IntLit(0), lo), Le(lo, hi), Le(hi, mx), Le(mx, SCap(s))), "slice bounds: "+e.src(x), x.Pos())
	} else {
		e.oblige(st, "slice", "", And(Le(IntLit(0), lo), Le(lo, hi), Le(hi, SCap(s))), "slice bounds: "+e.src(x), x.Pos())
	}
	return e.bind("sl", MkSlice(SRef(s), SubOff(s, lo), Sub(hi, lo), Sub(mx, lo)))
}

func (e *Exec) src(n ast.Node) string {
	p0 := e.prog.Fset.Position(n.Pos())
	p1 := e.prog.Fset.Position(n.End())
	if p0.Filename == "" || p0.Filename != p1.Filename {
		return ""
	}
	data, ok := e.prog.srcCache(p0.Filename)
	if !ok || p1.Offset > len(data) {
		return ""
	}
	s := string(data[p0.Offset:p1.Offset])
	if len(s) > 80 {
		s = s[:80] + "…"
	}
	return strings.Join(strings.Fields(s), " ")
}

func (e *Exec) evalComposite(st *State, x *ast.CompositeLit) Term {
	t := e.typeOf(x)
	switch u := types.Unalias(t).Underlying().(type) {
	case *types.Struct:
		fs := make([]Term, u.NumFields())
		for i := 0; i < u.NumFields(); i++ {
			fs[i] = e.zero(u.Field(i).Type())
		}
		for i, el := range x.Elts {
			if kv, ok := el.(*ast.KeyValueExpr); ok {
				name := kv.Key.(*ast.Ident).Name
				for j := 0; j < u.NumFields(); j++ {
					if u.Field(j).Name() == name {
						fs[j] = e.evalAs(st, kv.Value, u.Field(j).Type())
					}
				}
			} else {
				fs[i] = e.evalAs(st, el, u.Field(i).Type())
			}
		}
		return e.mkStruct(t, fs)
	case *types.Slice:
		n := int64(len(x.Elts))
		ref := e.allocRef(st, "lit")
		s := MkSlice(ref, IntLit(0), IntLit(n), IntLit(n))
		e.noFrame = true
		for i, el := range x.Elts {
			if kv, ok := el.(*ast.KeyValueExpr); ok {
				el = kv.Value
			}
			v := e.evalAs(st, el, u.Elem())
			e.storeElem(st, s, u.Elem(), IntLit(int64(i)), e.toSort(v, e.elemSort(u.Elem())))
		}
		e.noFrame = false
		return s
	case *types.Array:
		a := e.zero(t)
		for i, el := range x.Elts {
			if kv, ok := el.(*ast.KeyValueExpr); ok {
				el = kv.Value
			}
			v := e.evalAs(st, el, u.Elem())
			a = Store(a, IntLit(int64(i)), e.toSort(v, e.elemSort(u.Elem())))
		}
		return a
	}
	e.unsupportedf(x.Pos(), "composite literal of %s", t)
	return e.havocValue(st, "lit", t)
}

// ---------------------------------------------------------------------------
// arithmetic

func pow2(k uint) Term {
	n := new(big.Int).Lsh(big.NewInt(1), k)
	return Term{n.String(), SInt}
}

// wrap reduces a mathematical result into the range of Go type t.
func (e *Exec) wrap(v Term, t types.Type) Term {
	b, ok := types.Unalias(t).Underlying().(*types.Basic)
	if !ok || v.Sort != SInt {
		return v
	}
	switch b.Kind() {
	case types.Uint8:
		return Mod(v, pow2(8))
	case types.Uint16:
		return Mod(v, pow2(16))
	case types.Uint32:
		return Mod(v, pow2(32))
	case types.Uint, types.Uint64, types.Uintptr:
		return Mod(v, pow2(64))
	case types.Int8:
		return Sub(Mod(Add(v, pow2(7)), pow2(8)), pow2(7))
	case types.Int16:
		return Sub(Mod(Add(v, pow2(15)), pow2(16)), pow2(15))
	case types.Int32:
		return Sub(Mod(Add(v, pow2(31)), pow2(32)), pow2(31))
	}
	// int, int64: treated as mathematical (assumption recorded once per function)
	return v
}

// wrapAddSub: cheaper wrap for a single addition/subtraction of in-range operands.
func (e *Exec) wrapAddSub(v Term, t types.Type, isAdd bool) Term {
	b, ok := types.Unalias(t).Underlying().(*types.Basic)
	if !ok || v.Sort != SInt {
		return v
	}
	var m Term
	switch b.Kind() {
	case types.Uint8:
		m = pow2(8)
	case types.Uint16:
		m = pow2(16)
	case types.Uint32:
		m = pow2(32)
	case types.Uint, types.Uint64, types.Uintptr:
		m = pow2(64)
	default:
		return e.wrap(v, t)
	}
	v = e.bindLocal("ar", v)
	if isAdd {
		return Ite(Ge(v, m), Sub(v, m), v)
	}
	return Ite(Lt(v, IntLit(0)), Add(v, m), v)
}

func (e *Exec) bindLocal(prefix string, t Term) Term {
	if len(t.S) <= 24 {
		return t
	}
	c := e.fresh(prefix, t.Sort)
	e.assumeGlobal(Eq(c, t))
	e.defs[c.S] = t.S
	return c
}

func isUnsigned(t types.Type) bool {
	b, ok := types.Unalias(t).Underlying().(*types.Basic)
	return ok && b.Info()&types.IsUnsigned != 0
}

func (e *Exec) evalBinary(st *State, x *ast.BinaryExpr) Term {
	switch x.Op {
	case token.LAND, token.LOR:
		l := e.eval(st, x.X)
		// the right operand is evaluated only when needed: its obligations are under that condition
		saved := st.pc
		e.syncCtx(saved.S)
		n0 := len(e.assumps)
		if x.Op == token.LAND {
			e.addPC(st, l)
		} else {
			e.addPC(st, Not(l))
		}
		r := e.eval(st, x.Y)
		st.pc = saved
		e.reparentSince(n0, saved.S)
		if x.Op == token.LAND {
			return e.bindLocal("b", And(l, r))
		}
		return e.bindLocal("b", Or(l, r))
	}
	lt, rt := e.typeOf(x.X), e.typeOf(x.Y)
	// comparisons of interface / pointer / slice values with nil
	switch x.Op {
	case token.EQL, token.NEQ:
		l := e.eval(st, x.X)
		r := e.eval(st, x.Y)
		l, r = e.unify(st, l, lt, r, rt)
		var eq Term
		switch l.Sort {
		case SSlice:
			eq = Eq(SRef(l), SRef(r)) // only legal against nil
		case SCont:
			if r.S == NilCont.S {
				eq = Eq(CKind(l), IntLit(0))
			} else if l.S == NilCont.S {
				eq = Eq(CKind(r), IntLit(0))
			} else {
				eq = Eq(l, r)
			}
		default:
			eq = Eq(l, r)
		}
		if x.Op == token.NEQ {
			return Not(eq)
		}
		return eq
	case token.LSS, token.LEQ, token.GTR, token.GEQ:
		l := e.eval(st, x.X)
		r := e.eval(st, x.Y)
		l, r = e.unify(st, l, lt, r, rt)
		if l.Sort == SBV64 {
			op := map[token.Token]string{token.LSS: "bvult", token.LEQ: "bvule", token.GTR: "bvugt", token.GEQ: "bvuge"}[x.Op]
			return mk(SBool, op, l, r)
		}
		op := map[token.Token]string{token.LSS: "<", token.LEQ: "<=", token.GTR: ">", token.GEQ: ">="}[x.Op]
		return mk(SBool, op, l, r)
	}
	t := e.typeOf(x)
	l := e.eval(st, x.X)
	r := e.eval(st, x.Y)
	return e.arith(st, x.Op, l, r, t, rt, x)
}

// unify brings two operands to the same sort (untyped constants follow the other side).
func (e *Exec) unify(st *State, l Term, lt types.Type, r Term, rt types.Type) (Term, Term) {
	if l.Sort == r.Sort {
		return l, r
	}
	if l.Sort == SBV64 && r.Sort == SInt {
		return l, e.toSort(r, SBV64)
	}
	if l.Sort == SInt && r.Sort == SBV64 {
		return e.toSort(l, SBV64), r
	}
	if l.Sort == SCont && r.Sort != SCont {
		return l, e.coerce(st, r, rt, lt)
	}
	if r.Sort == SCont && l.Sort != SCont {
		return e.coerce(st, l, lt, rt), r
	}
	if l.Sort == SSlice && r.Sort == SInt {
		return l, NilSlice
	}
	if r.Sort == SSlice && l.Sort == SInt {
		return NilSlice, r
	}
	return l, r
}

// shamt converts an Int shift amount into a 64-bit vector through a constant ladder.
func (e *Exec) shamt(k Term) Term {
	if k.Sort == SBV64 && strings.HasPrefix(k.S, "((_ int2bv 64) ") {
		// uint(k) of an Int k in word mode: the amount is k itself (negative or >= 64: the ladder yields 64, i.e. the shift gives 0,
		// as in Go where the converted amount is >= 64)
		k = Term{k.S[len("((_ int2bv 64) ") : len(k.S)-1], SInt}
	}
	if k.Sort == SBV64 {
		return k
	}
	if n, ok := litVal(k); ok && (n < 0 || n >= 64) {
		return BVLit(64)
	}
	// literal amounts also go through shamt so that the bit-of-shift facts (patterns over (shamt k)) apply
	e.needShamt()
	return mk(SBV64, "shamt", k)
}

func (e *Exec) needShamt() {
	if e.declared["fun:shamt"] {
		return
	}
	// shamt: shift amount (Int) as a 64-bit vector. Uninterpreted with its defining ladder as an
	// axiom, so that it may occur in patterns of the bit library.
	e.rawDecl("fun:shamt", "(declare-fun shamt (Int) (_ BitVec 64))")
	var b strings.Builder
	b.WriteString("(assert (forall ((k Int)) (! (= (shamt k) ")
	for i := 0; i < 64; i++ {
		fmt.Fprintf(&b, "(ite (= k %d) #x%016x ", i, i)
	}
	b.WriteString("#x0000000000000040")
	b.WriteString(strings.Repeat(")", 64))
	b.WriteString(") :pattern ((shamt k)))))")
	e.globalAxiom(b.String())
}

func (e *Exec) arith(st *State, op token.Token, l, r Term, t types.Type, rt types.Type, at ast.Node) Term {
	if op == token.SHL || op == token.SHR {
		if l.Sort == SBV64 {
			a := e.shamt(r)
			if op == token.SHL {
				return mk(SBV64, "bvshl", l, a)
			}
			return mk(SBV64, "bvlshr", l, a)
		}
		r = e.toSort(r, SInt)
		if k, ok := litVal(r); ok && k >= 0 && k < 64 {
			if op == token.SHL {
				return e.wrap(Mul(l, pow2(uint(k))), t)
			}
			return Div(l, pow2(uint(k))) // arithmetic shift == floor division
		}
		// symbolic shift amount on an Int: 2^k through a ladder
		e.needPow2()
		p := mk(SInt, "pow2i", r)
		if op == token.SHL {
			return e.wrap(mk(SInt, "*", l, p), t)
		}
		return Div(l, p)
	}
	if (l.Sort == SInt && r.Sort == SBV64 && strings.HasPrefix(r.S, "((_ int2bv 64) ")) ||
		(r.Sort == SInt && l.Sort == SBV64 && strings.HasPrefix(l.S, "((_ int2bv 64) ")) {
		// a number converted to uint64 meets a numeric (ints) variable: stay mathematical
		unwrap := func(t Term) Term {
			if t.Sort == SBV64 {
				return Term{t.S[len("((_ int2bv 64) ") : len(t.S)-1], SInt}
			}
			return t
		}
		l, r = unwrap(l), unwrap(r)
	}
	if l.Sort == SBV64 || r.Sort == SBV64 {
		l, r = e.toSort(l, SBV64), e.toSort(r, SBV64)
		switch op {
		case token.ADD:
			return mk(SBV64, "bvadd", l, r)
		case token.SUB:
			return mk(SBV64, "bvsub", l, r)
		case token.MUL:
			return mk(SBV64, "bvmul", l, r)
		case token.QUO:
			e.oblige(st, "div", "", Not(Eq(r, BVLit(0))), "division by zero", at.Pos())
			return mk(SBV64, "bvudiv", l, r)
		case token.REM:
			e.oblige(st, "div", "", Not(Eq(r, BVLit(0))), "division by zero", at.Pos())
			return mk(SBV64, "bvurem", l, r)
		case token.AND:
			return mk(SBV64, "bvand", l, r)
		case token.OR:
			return mk(SBV64, "bvor", l, r)
		case token.XOR:
			return mk(SBV64, "bvxor", l, r)
		case token.AND_NOT:
			return mk(SBV64, "bvand", l, mk(SBV64, "bvnot", r))
		}
	}
	switch op {
	case token.ADD:
		return e.wrapAddSub(Add(l, r), t, true)
	case token.SUB:
		return e.wrapAddSub(Sub(l, r), t, false)
	case token.MUL:
		return e.wrap(Mul(l, r), t)
	case token.QUO, token.REM:
		e.oblige(st, "div", "", Not(Eq(r, IntLit(0))), "division by zero", at.Pos())
		if isUnsigned(t) {
			if op == token.QUO {
				return Div(l, r)
			}
			return Mod(l, r)
		}
		if rv, ok := litVal(r); ok && rv > 0 {
			// truncated division for a positive constant divisor
			q := Ite(Ge(l, IntLit(0)), Div(l, r), mk(SInt, "-", Div(mk(SInt, "-", l), r)))
			if op == token.QUO {
				return q
			}
			return Sub(l, Mul(r, e.bindLocal("q", q)))
		}
		absl := Ite(Ge(l, IntLit(0)), l, mk(SInt, "-", l))
		absr := Ite(Ge(r, IntLit(0)), r, mk(SInt, "-", r))
		q0 := Div(absl, absr)
		neg := Not(Eq(Ge(l, IntLit(0)), Ge(r, IntLit(0))))
		q := e.bindLocal("q", Ite(neg, mk(SInt, "-", q0), q0))
		if op == token.QUO {
			return q
		}
		return Sub(l, mk(SInt, "*", r, q))
	case token.AND:
		if m, ok := litVal(r); ok {
			if k, isMask := maskBits(m); isMask && isNonNeg(l, e, t) {
				return Mod(l, pow2(k))
			}
		}
		if m, ok := litVal(l); ok {
			if k, isMask := maskBits(m); isMask {
				return Mod(r, pow2(k))
			}
		}
		// x & (2^w - 2^k) on an unsigned w-bit value clears the low k bits
		if w := unsignedWidth(t); w > 0 && w < 64 {
			if m, ok := litVal(r); ok {
				if k, isHigh := highMaskBits(m, w); isHigh {
					return Sub(l, Mod(l, pow2(k)))
				}
			}
			if m, ok := litVal(l); ok {
				if k, isHigh := highMaskBits(m, w); isHigh {
					return Sub(r, Mod(r, pow2(k)))
				}
			}
		}
		// a & (1 << k): the single bit, or 0
		if isSingleBitTerm(r) {
			v := e.bindLocal("bitv", r)
			return Ite(Eq(v, IntLit(0)), IntLit(0), Ite(Eq(Mod(Div(l, v), IntLit(2)), IntLit(1)), v, IntLit(0)))
		}
		if isSingleBitTerm(l) {
			v := e.bindLocal("bitv", l)
			return Ite(Eq(v, IntLit(0)), IntLit(0), Ite(Eq(Mod(Div(r, v), IntLit(2)), IntLit(1)), v, IntLit(0)))
		}
		e.needBitAxioms()
		return mk(SInt, "uf_and", l, r)
	case token.OR:
		if v, ok := e.disjointOr(l, r); ok {
			return v
		}
		// a | (1 << k): sets one bit
		if isSingleBitTerm(r) {
			v := e.bindLocal("bitv", r)
			return Ite(Or(Eq(v, IntLit(0)), Eq(Mod(Div(l, v), IntLit(2)), IntLit(1))), l, Add(l, v))
		}
		if isSingleBitTerm(l) {
			v := e.bindLocal("bitv", l)
			return Ite(Or(Eq(v, IntLit(0)), Eq(Mod(Div(r, v), IntLit(2)), IntLit(1))), r, Add(r, v))
		}
		e.needBitAxioms()
		return mk(SInt, "uf_or", l, r)
	case token.XOR:
		e.needBitAxioms()
		return mk(SInt, "uf_xor", l, r)
	case token.AND_NOT:
		if m, ok := litVal(r); ok {
			if k, isMask := maskBits(m); isMask {
				return Sub(l, Mod(l, pow2(k))) // x &^ (2^k - 1) clears the low k bits
			}
		}
		e.needBitAxioms()
		return Sub(l, mk(SInt, "uf_and", l, r))
	}
	e.unsupportedf(at.Pos(), "operator %s", op)
	return e.fresh("arith", SInt)
}

func isNonNeg(v Term, e *Exec, t types.Type) bool { return true }

// isSingleBitTerm: the term is syntactically 2^k (a literal power of two, pow2i(e), 1*pow2i(e)) possibly reduced modulo
// a literal power of two (then its value is 2^k or 0). Used for the exact treatment of x | (1<<k) and x & (1<<k) on
// non-negative mathematical integers.
func isSingleBitTerm(t Term) bool {
	if t.Sort != SInt {
		return false
	}
	if v, ok := litVal(t); ok {
		return v > 0 && v&(v-1) == 0
	}
	s := t.S
	if strings.HasPrefix(s, "(mod ") {
		parts := splitTop(s[1 : len(s)-1])
		if len(parts) == 3 {
			if m, ok := litVal(Term{parts[2], SInt}); ok && m > 0 && m&(m-1) == 0 {
				return isSingleBitTerm(Term{parts[1], SInt})
			}
		}
		return false
	}
	if strings.HasPrefix(s, "(pow2i ") {
		return true
	}
	if strings.HasPrefix(s, "(* 1 (pow2i ") {
		return true
	}
	return false
}

// unsignedWidth: bit width of a sized unsigned integer type (0 otherwise).
func unsignedWidth(t types.Type) uint {
	if b, ok := types.Unalias(t).Underlying().(*types.Basic); ok {
		switch b.Kind() {
		case types.Uint8:
			return 8
		case types.Uint16:
			return 16
		case types.Uint32:
			return 32
		}
	}
	return 0
}

// highMaskBits: m == 2^w - 2^k with 0 < k < w.
func highMaskBits(m int64, w uint) (uint, bool) {
	if m <= 0 || m >= int64(1)<<w {
		return 0, false
	}
	low := (int64(1) << w) - m // must be 2^k
	if low&(low-1) != 0 {
		return 0, false
	}
	k := uint(0)
	for x := low; x > 1; x >>= 1 {
		k++
	}
	if k == 0 {
		return 0, false
	}
	return k, true
}

func maskBits(m int64) (uint, bool) {
	if m <= 0 {
		return 0, false
	}
	k := uint(0)
	for x := m; x != 0; x >>= 1 {
		if x&1 == 0 {
			return 0, false
		}
		k++
	}
	return k, true
}

// disjointOr recognises (a * 2^k) | b with b < 2^k syntactically evident.
func (e *Exec) disjointOr(l, r Term) (Term, bool) {
	try := func(hi, lo Term) (Term, bool) {
		// hi is "(* x 65536)" or "(mod (* x 65536) M)" ; lo is "(mod y 65536)" or a small literal
		k := shiftOf(hi.S)
		if k == 0 {
			return Term{}, false
		}
		if v, ok := litVal(lo); ok && v >= 0 && v < (1<<k) {
			return Add(hi, lo), true
		}
		if strings.HasPrefix(lo.S, "(mod ") && strings.HasSuffix(lo.S, " "+pow2(k).S+")") {
			return Add(hi, lo), true
		}
		return Term{}, false
	}
	if v, ok := try(l, r); ok {
		return v, true
	}
	return try(r, l)
}

func shiftOf(s string) uint {
	if strings.HasPrefix(s, "(mod ") {
		parts := splitTop(s[1 : len(s)-1])
		if len(parts) == 3 {
			return shiftOf(parts[1])
		}
	}
	if strings.HasPrefix(s, "(* ") {
		parts := splitTop(s[1 : len(s)-1])
		if len(parts) == 3 {
			for k := uint(1); k < 63; k++ {
				if parts[2] == pow2(k).S || parts[1] == pow2(k).S {
					return k
				}
			}
		}
	}
	return 0
}

func (e *Exec) needPow2() {
	if e.declared["fun:pow2i"] {
		return
	}
	var b strings.Builder
	b.WriteString("(define-fun pow2i ((k Int)) Int ")
	for i := 0; i < 64; i++ {
		fmt.Fprintf(&b, "(ite (= k %d) %s ", i, pow2(uint(i)).S)
	}
	b.WriteString(pow2(64).S)
	b.WriteString(strings.Repeat(")", 64))
	b.WriteString(")")
	e.rawDecl("fun:pow2i", b.String())
}

func (e *Exec) needBitAxioms() {
	if e.declared["ax:bits"] {
		return
	}
	e.mark("ax:bits")
	e.globalAxiom("(assert (forall ((a Int) (b Int)) (! (=> (and (>= a 0) (>= b 0)) (and (>= (uf_and a b) 0) (<= (uf_and a b) a) (<= (uf_and a b) b))) :pattern ((uf_and a b)))))")
	e.globalAxiom("(assert (forall ((a Int) (b Int)) (! (=> (and (>= a 0) (>= b 0)) (and (>= (uf_or a b) a) (>= (uf_or a b) b) (<= (uf_or a b) (+ a b)))) :pattern ((uf_or a b)))))")
	e.globalAxiom("(assert (forall ((a Int) (b Int)) (! (=> (and (>= a 0) (>= b 0)) (and (>= (uf_xor a b) 0) (<= (uf_xor a b) (+ a b)))) :pattern ((uf_xor a b)))))")
	// disjoint bit ranges: low 16 bits | multiple of 65536 (the (key<<16)|low idiom), either operand order; likewise for 32 bits
	e.globalAxiom("(assert (forall ((a Int) (b Int)) (! (=> (and (<= 0 a) (< a 65536) (>= b 0) (= (mod b 65536) 0)) (and (= (uf_or a b) (+ a b)) (= (uf_or b a) (+ a b)))) :pattern ((uf_or a b)) :pattern ((uf_or b a)))))")
	e.globalAxiom("(assert (forall ((a Int) (b Int)) (! (=> (and (<= 0 a) (< a 4294967296) (>= b 0) (= (mod b 4294967296) 0)) (and (= (uf_or a b) (+ a b)) (= (uf_or b a) (+ a b)))) :pattern ((uf_or a b)) :pattern ((uf_or b a)))))")
}

// convert implements the Go conversion T(v).
func (e *Exec) convert(st *State, v Term, from, to types.Type, at ast.Node) Term {
	fb, fok := types.Unalias(from).Underlying().(*types.Basic)
	tb, tok := types.Unalias(to).Underlying().(*types.Basic)
	if fok && tok && fb.Info()&types.IsInteger != 0 && tb.Info()&types.IsInteger != 0 {
		ts := e.sortOf(to)
		if v.Sort == SBV64 && ts == SBV64 {
			return v
		}
		if v.Sort == SBV64 && ts == SInt {
			n := e.toSort(v, SInt)
			if tb.Kind() == types.Int || tb.Kind() == types.Int64 {
				n = e.bindLocal("cv", n)
				return Ite(Ge(n, pow2(63)), Sub(n, pow2(64)), n)
			}
			return e.wrap(n, to)
		}
		if v.Sort == SInt && ts == SBV64 {
			if n, ok := litVal(v); ok {
				if n >= 0 {
					return BVLit(uint64(n))
				}
				return BVLit(uint64(n))
			}
			// small non-negative sources go through a ladder only when tiny; otherwise int2bv
			return mk(SBV64, "(_ int2bv 64)", v)
		}
		// Int -> Int
		if fitsIn(fb, tb) {
			return v
		}
		if (tb.Kind() == types.Int || tb.Kind() == types.Int64) && (fb.Kind() == types.Uint64 || fb.Kind() == types.Uint || fb.Kind() == types.Uintptr) {
			// two's complement reinterpretation of an unsigned 64-bit value
			v = e.bindLocal("cv", v)
			return Ite(Ge(v, pow2(63)), Sub(v, pow2(64)), v)
		}
		return e.wrap(v, to)
	}
	if isInterface(to) {
		return e.coerce(st, v, from, to)
	}
	// T(nil) for slice / pointer / interface types
	if fb, ok := types.Unalias(from).Underlying().(*types.Basic); ok && fb.Kind() == types.UntypedNil {
		return e.nilOf(to)
	}
	// named pointer / slice / struct conversions between identical underlying types
	if e.sortOf(to) == v.Sort {
		return v
	}
	// []byte(string) etc.
	e.unsupportedf(at.Pos(), "conversion %s -> %s", from, to)
	return e.havocValue(st, "conv", to)
}

func fitsIn(from, to *types.Basic) bool {
	flo, fhi, ok1 := intRange(from)
	tlo, thi, ok2 := intRange(to)
	if !ok1 || !ok2 {
		return from.Kind() == types.UntypedInt
	}
	a, _ := new(big.Int).SetString(flo, 10)
	b, _ := new(big.Int).SetString(fhi, 10)
	c, _ := new(big.Int).SetString(tlo, 10)
	d, _ := new(big.Int).SetString(thi, 10)
	return a.Cmp(c) >= 0 && b.Cmp(d) <= 0
}
