package main

// Loading of /repo's packages (typed ASTs, build tag verif) and of the
// contracts kept as //@ lines in zz_*_verif.go files of each package.

import (
	"bufio"
	"fmt"
	"go/ast"
	"go/token"
	"go/types"
	"os"
	"path/filepath"
	"regexp"
	"sort"
	"strconv"
	"strings"

	"golang.org/x/tools/go/packages"
)

type Clause struct {
	Raw  func(*State) Term // engine-generated clause (range-loop counter bounds)
	Src  string
	E    SExpr
	Tag  string
	File string
	Line int
}

type LoopSpec struct {
	Invariants []Clause
	Decreases  *Clause
	Modifies   []Clause // optional explicit heap frame of the loop
	Unroll     int      // >0: fully unroll a constant-trip loop this many times, with unwinding assertion
}

type Contract struct {
	Key      string
	Requires []Clause
	Ensures  []Clause
	Modifies []Clause
	ModGiven bool
	Loops    map[int]*LoopSpec
	Mode     string // "", "word", "int"
	Trusted  string // non-empty: assumed contract (reason); body not verified
	Panics   bool   // function may panic outside its precondition by design
	Uses     []string // lemma procedures whose quantified closure is available as a premise
	Decreases *Clause // termination measure (recursive functions / lemma procedures)
	IsLemma  bool
	Triggers [][]Clause
	File     string
	Line     int
	Iface    bool // contract of an interface method
	Ints     []string // uint64 variables / "res" that hold numbers, not bit patterns (mathematical Int in word-mode functions)
	Hints    []Hint
	Pure     bool // pure lemma: no Go function; proved by induction on its measure
	PureParams []SpecParam
	Pkg      string
}

// Hint: a ghost lemma application anchored at the first statement whose source text starts with Anchor:
//   //@ before "x := f(y)" apply lemmaName(arg, ...)
type Hint struct {
	Anchor string
	After  bool
	Lemma  string
	Args   []Clause
	Line   int
}

type SpecParam struct {
	Name string
	Type string
}

type SpecFunc struct {
	Name    string
	Pkg     string
	Params  []SpecParam
	Ret     string
	Body    SExpr
	Src     string
	File    string
	Line    int
	Prop    bool // boolean property: each instance becomes a named SMT predicate over the enclosing bound variables
	Pred    bool // set-like predicate over its last parameter: each instance becomes a named SMT predicate with a defining axiom
	Opaque  bool // declared but never unfolded unless `reveal`ed
	Recurse bool
}

type FuncInfo struct {
	Key  string
	Pkg  *packages.Package
	Decl *ast.FuncDecl
	Obj  *types.Func
}

type Program struct {
	Fset      *token.FileSet
	Pkgs      map[string]*packages.Package // short name -> package
	Funcs     map[string]*FuncInfo
	FuncByObj map[*types.Func]*FuncInfo
	Contracts map[string]*Contract
	Specs     map[string]*SpecFunc // pkgShort.name and bare name
	Repo      string
	Errors    []string
	implContracts map[string]*Contract
	ContractErrors []string
}

func pkgShort(path string) string {
	switch {
	case strings.HasSuffix(path, "/roaring/v2"):
		return "roaring"
	case strings.HasSuffix(path, "/BitSliceIndexing"):
		return "bsi"
	}
	return path[strings.LastIndex(path, "/")+1:]
}

func recvTypeName(fd *ast.FuncDecl) string {
	if fd.Recv == nil || len(fd.Recv.List) == 0 {
		return ""
	}
	t := fd.Recv.List[0].Type
	for {
		switch x := t.(type) {
		case *ast.StarExpr:
			t = x.X
			continue
		case *ast.Ident:
			return x.Name
		case *ast.IndexExpr:
			t = x.X
			continue
		}
		return ""
	}
}

// goEnv selects the offline Go 1.24.4 toolchain that /repo's go.mod pins.
func goEnv() []string {
	env := os.Environ()
	tc := "/root/go/pkg/mod/golang.org/toolchain@v0.0.1-go1.24.4.linux-amd64"
	if _, err := os.Stat(tc + "/bin/go"); err == nil {
		var out []string
		for _, kv := range env {
			if strings.HasPrefix(kv, "PATH=") || strings.HasPrefix(kv, "GOROOT=") {
				continue
			}
			out = append(out, kv)
		}
		env = append(out, "PATH="+tc+"/bin:"+os.Getenv("PATH"), "GOROOT="+tc)
		// go/packages resolves "go" through this process's PATH
		os.Setenv("PATH", tc+"/bin:"+os.Getenv("PATH"))
		os.Setenv("GOROOT", tc)
	}
	return append(env, "GOFLAGS=-mod=mod", "GOPROXY=off", "GOTOOLCHAIN=local", "GOSUMDB=off")
}

func loadProgram(repo string) (*Program, error) {
	cfg := &packages.Config{
		Mode:       packages.LoadAllSyntax,
		Dir:        repo,
		BuildFlags: []string{"-tags=verif"},
		Env:        goEnv(),
	}
	pkgs, err := packages.Load(cfg, "./...")
	if err != nil {
		return nil, err
	}
	p := &Program{Pkgs: map[string]*packages.Package{}, Funcs: map[string]*FuncInfo{}, FuncByObj: map[*types.Func]*FuncInfo{},
		Contracts: map[string]*Contract{}, Specs: map[string]*SpecFunc{}, Repo: repo, implContracts: map[string]*Contract{}}
	for _, pkg := range pkgs {
		if len(pkg.Errors) > 0 {
			for _, e := range pkg.Errors {
				p.Errors = append(p.Errors, e.Error())
			}
		}
		p.Fset = pkg.Fset
		short := pkgShort(pkg.PkgPath)
		p.Pkgs[short] = pkg
		for _, f := range pkg.Syntax {
			for _, d := range f.Decls {
				fd, ok := d.(*ast.FuncDecl)
				if !ok {
					continue
				}
				key := short + "."
				if r := recvTypeName(fd); r != "" {
					key += r + "."
				}
				key += fd.Name.Name
				obj, _ := pkg.TypesInfo.Defs[fd.Name].(*types.Func)
				fi := &FuncInfo{Key: key, Pkg: pkg, Decl: fd, Obj: obj}
				p.Funcs[key] = fi
				if obj != nil {
					p.FuncByObj[obj] = fi
				}
			}
		}
		// contract files
		dir := ""
		if len(pkg.GoFiles) > 0 {
			dir = filepath.Dir(pkg.GoFiles[0])
		}
		if dir != "" {
			files, _ := filepath.Glob(filepath.Join(dir, "zz_*_verif.go"))
			sort.Strings(files)
			for _, cf := range files {
				if err := p.parseContractFile(cf, short); err != nil {
					// a broken contract file must not take the other files down with it
					p.ContractErrors = append(p.ContractErrors, err.Error())
				}
			}
		}
	}
	if len(p.Errors) > 0 {
		return p, fmt.Errorf("type errors in /repo: %s", strings.Join(p.Errors, "; "))
	}
	return p, nil
}

var kwRe = regexp.MustCompile(`^(spec|opaque|pred|prop|before|after|contract|iface|purelemma|ints|requires|ensures|modifies|loop|mode|trusted|panics|use|decreases|lemma|trigger|end)\b`)

func (p *Program) parseContractFile(path, short string) error {
	fh, err := os.Open(path)
	if err != nil {
		return err
	}
	defer fh.Close()
	type rawClause struct {
		text string
		line int
	}
	var raws []rawClause
	sc := bufio.NewScanner(fh)
	sc.Buffer(make([]byte, 1<<20), 1<<20)
	ln := 0
	for sc.Scan() {
		ln++
		line := sc.Text()
		t := strings.TrimSpace(line)
		if !strings.HasPrefix(t, "//@") {
			continue
		}
		body := strings.TrimSpace(t[3:])
		if body == "" {
			continue
		}
		if i := strings.Index(body, " -- "); i >= 0 { // trailing remark
			body = strings.TrimSpace(body[:i])
		}
		if strings.HasPrefix(body, "--") {
			continue
		}
		if kwRe.MatchString(body) || len(raws) == 0 {
			raws = append(raws, rawClause{body, ln})
		} else {
			raws[len(raws)-1].text += " " + body
		}
	}
	var cur *Contract
	mkClause := func(src string, line int) (Clause, error) {
		tag := ""
		src = strings.TrimSpace(src)
		if strings.HasPrefix(src, "@") {
			i := strings.IndexAny(src, " \t")
			if i < 0 {
				return Clause{}, fmt.Errorf("%s:%d: tag without expression", path, line)
			}
			tag = src[1:i]
			src = strings.TrimSpace(src[i:])
		}
		e, err := parseSpec(src)
		if err != nil {
			return Clause{}, fmt.Errorf("%s:%d: %v", path, line, err)
		}
		return Clause{Src: src, E: e, Tag: tag, File: path, Line: line}, nil
	}
	for _, rc := range raws {
		kw := kwRe.FindString(rc.text)
		rest := strings.TrimSpace(rc.text[len(kw):])
		switch kw {
		case "spec", "opaque", "pred", "prop":
			// spec name(a T, b U) R = expr
			m := regexp.MustCompile(`^(\w+)\s*\(([^)]*)\)\s*([\w\[\]\*\.]+)\s*=\s*(.*)$`).FindStringSubmatch(rest)
			if m == nil {
				return fmt.Errorf("%s:%d: malformed spec function", path, rc.line)
			}
			sf := &SpecFunc{Name: m[1], Pkg: short, Ret: m[3], Src: m[4], File: path, Line: rc.line, Opaque: kw == "opaque", Pred: kw == "pred", Prop: kw == "prop"}
			for _, prm := range strings.Split(m[2], ",") {
				prm = strings.TrimSpace(prm)
				if prm == "" {
					continue
				}
				i := strings.IndexAny(prm, " \t")
				if i < 0 {
					return fmt.Errorf("%s:%d: spec parameter needs a type: %q", path, rc.line, prm)
				}
				sf.Params = append(sf.Params, SpecParam{prm[:i], strings.TrimSpace(prm[i:])})
			}
			e, err := parseSpec(m[4])
			if err != nil {
				return fmt.Errorf("%s:%d: %v", path, rc.line, err)
			}
			sf.Body = e
			sf.Recurse = specCalls(e, sf.Name)
			p.Specs[short+"."+sf.Name] = sf
			cur = nil
		case "purelemma":
			m := regexp.MustCompile(`^(\w+)\s*\(([^)]*)\)\s*$`).FindStringSubmatch(rest)
			if m == nil {
				return fmt.Errorf("%s:%d: malformed purelemma", path, rc.line)
			}
			key := short + "." + m[1]
			cur = &Contract{Key: key, Loops: map[int]*LoopSpec{}, File: path, Line: rc.line, Pure: true, IsLemma: true, Pkg: short}
			for _, prm := range strings.Split(m[2], ",") {
				prm = strings.TrimSpace(prm)
				if prm == "" {
					continue
				}
				i := strings.IndexAny(prm, " \t")
				if i < 0 {
					return fmt.Errorf("%s:%d: purelemma parameter needs a type: %q", path, rc.line, prm)
				}
				cur.PureParams = append(cur.PureParams, SpecParam{prm[:i], strings.TrimSpace(prm[i:])})
			}
			if _, dup := p.Contracts[key]; dup {
				return fmt.Errorf("%s:%d: duplicate contract for %s", path, rc.line, key)
			}
			p.Contracts[key] = cur
		case "contract", "iface":
			name := strings.TrimSpace(rest)
			key := short + "." + name
			if kw == "iface" && strings.Count(name, ".") == 2 {
				key = name // interface of another package, e.g. io.Writer.Write
			}
			cur = &Contract{Key: key, Loops: map[int]*LoopSpec{}, File: path, Line: rc.line, Iface: kw == "iface"}
			if _, dup := p.Contracts[key]; dup {
				return fmt.Errorf("%s:%d: duplicate contract for %s", path, rc.line, key)
			}
			p.Contracts[key] = cur
		case "end":
			cur = nil
		default:
			if cur == nil {
				return fmt.Errorf("%s:%d: clause %q outside a contract", path, rc.line, kw)
			}
			switch kw {
			case "before", "after":
				m := regexp.MustCompile(`^"([^"]+)"\s+apply\s+(\w+)\s*\((.*)\)\s*$`).FindStringSubmatch(rest)
				if m == nil {
					return fmt.Errorf("%s:%d: malformed hint (want: before \"stmt text\" apply lemma(args))", path, rc.line)
				}
				h := Hint{Anchor: strings.Join(strings.Fields(m[1]), " "), After: kw == "after", Lemma: m[2], Line: rc.line}
				for _, part := range splitTopComma(m[3]) {
					c, err := mkClause(part, rc.line)
					if err != nil {
						return err
					}
					h.Args = append(h.Args, c)
				}
				cur.Hints = append(cur.Hints, h)
			case "use":
				cur.Uses = append(cur.Uses, strings.Fields(rest)...)
			case "ints":
				for _, n := range strings.Split(rest, ",") {
					if n = strings.TrimSpace(n); n != "" {
						cur.Ints = append(cur.Ints, n)
					}
				}
			case "lemma":
				cur.IsLemma = true
			case "trigger":
				// one clause = one (multi-)pattern: comma-separated terms must all be present
				var group []Clause
				for _, part := range splitTopComma(rest) {
					c, err := mkClause(part, rc.line)
					if err != nil {
						return err
					}
					group = append(group, c)
				}
				cur.Triggers = append(cur.Triggers, group)
			case "requires", "ensures", "decreases":
				c, err := mkClause(rest, rc.line)
				if err != nil {
					return err
				}
				switch kw {
				case "requires":
					cur.Requires = append(cur.Requires, c)
				case "ensures":
					cur.Ensures = append(cur.Ensures, c)
				case "decreases":
					cur.Decreases = &c
				}
			case "modifies":
				cur.ModGiven = true
				if rest != "nothing" {
					for _, part := range splitTopComma(rest) {
						c, err := mkClause(part, rc.line)
						if err != nil {
							return err
						}
						cur.Modifies = append(cur.Modifies, c)
					}
				}
			case "mode":
				cur.Mode = rest
			case "trusted":
				cur.Trusted = rest
				if cur.Trusted == "" {
					cur.Trusted = "assumed"
				}
			case "panics":
				cur.Panics = true
			case "loop":
				f := strings.Fields(rest)
				if len(f) < 2 {
					return fmt.Errorf("%s:%d: malformed loop clause", path, rc.line)
				}
				n, err := strconv.Atoi(f[0])
				if err != nil {
					return fmt.Errorf("%s:%d: loop ordinal: %v", path, rc.line, err)
				}
				ls := cur.Loops[n]
				if ls == nil {
					ls = &LoopSpec{}
					cur.Loops[n] = ls
				}
				body := strings.TrimSpace(strings.TrimPrefix(strings.TrimSpace(rest[len(f[0]):]), f[1]))
				switch f[1] {
				case "invariant":
					c, err := mkClause(body, rc.line)
					if err != nil {
						return err
					}
					ls.Invariants = append(ls.Invariants, c)
				case "decreases":
					c, err := mkClause(body, rc.line)
					if err != nil {
						return err
					}
					ls.Decreases = &c
				case "modifies":
					for _, part := range splitTopComma(body) {
						c, err := mkClause(part, rc.line)
						if err != nil {
							return err
						}
						ls.Modifies = append(ls.Modifies, c)
					}
				case "unroll":
					k, err := strconv.Atoi(body)
					if err != nil {
						return fmt.Errorf("%s:%d: unroll count: %v", path, rc.line, err)
					}
					ls.Unroll = k
				default:
					return fmt.Errorf("%s:%d: unknown loop clause %q", path, rc.line, f[1])
				}
			}
		}
	}
	return nil
}

func splitTopComma(s string) []string {
	var out []string
	depth := 0
	start := 0
	for i, c := range s {
		switch c {
		case '(', '[':
			depth++
		case ')', ']':
			depth--
		case ',':
			if depth == 0 {
				out = append(out, strings.TrimSpace(s[start:i]))
				start = i + 1
			}
		}
	}
	if strings.TrimSpace(s[start:]) != "" {
		out = append(out, strings.TrimSpace(s[start:]))
	}
	return out
}

func specCalls(e SExpr, name string) bool {
	found := false
	walkSpec(e, func(x SExpr) {
		if c, ok := x.(*SCall); ok && c.Fun == name {
			found = true
		}
	})
	return found
}

func walkSpec(e SExpr, f func(SExpr)) {
	if e == nil {
		return
	}
	f(e)
	switch x := e.(type) {
	case *SBin:
		walkSpec(x.L, f)
		walkSpec(x.R, f)
	case *SUn:
		walkSpec(x.X, f)
	case *SCall:
		for _, a := range x.Args {
			walkSpec(a, f)
		}
	case *SIndex:
		walkSpec(x.X, f)
		walkSpec(x.I, f)
	case *SSliceE:
		walkSpec(x.X, f)
		if x.Lo != nil {
			walkSpec(x.Lo, f)
		}
		if x.Hi != nil {
			walkSpec(x.Hi, f)
		}
	case *SField:
		walkSpec(x.X, f)
	case *SQuant:
		if x.Lo != nil {
			walkSpec(x.Lo, f)
			walkSpec(x.Hi, f)
		}
		walkSpec(x.Body, f)
	case *SOld:
		walkSpec(x.X, f)
	case *SAssert:
		walkSpec(x.X, f)
	}
}

func (p *Program) lookupSpec(pkg, name string) *SpecFunc {
	if sf := p.Specs[pkg+"."+name]; sf != nil {
		return sf
	}
	// other package's spec function: <pkg>_<name>
	if i := strings.IndexByte(name, '_'); i > 0 {
		if _, ok := p.Pkgs[name[:i]]; ok {
			if sf := p.Specs[name[:i]+"."+name[i+1:]]; sf != nil {
				return sf
			}
		}
	}
	// spec functions of the root package are visible everywhere
	if sf := p.Specs["roaring."+name]; sf != nil {
		return sf
	}
	return nil
}
