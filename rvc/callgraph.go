package main

// `rvc callgraph -json <file>`: static call graph over the functions of the loaded packages (no solving). Used by
// tools_props.py to close each property's function list under callees: verification is modular, so a change inside
// a callee is noticed only by the callee's own obligations - they belong to every property whose functions call it.

import (
	"encoding/json"
	"flag"
	"fmt"
	"go/ast"
	"go/types"
	"os"
	"sort"
)

func cmdCallgraph(args []string) int {
	fs := flag.NewFlagSet("callgraph", flag.ExitOnError)
	repo := fs.String("repo", "/repo", "repository root")
	out := fs.String("json", "", "output file")
	fs.Parse(args)
	prog, err := loadProgram(*repo)
	if err != nil {
		fmt.Fprintln(os.Stderr, "load:", err)
		return 2
	}
	// implementations of interface methods, by method name and interface
	type im struct {
		iface *types.Interface
		name  string
	}
	graph := map[string][]string{}
	for key, fi := range prog.Funcs {
		if fi.Decl == nil || fi.Decl.Body == nil {
			continue
		}
		seen := map[string]bool{}
		info := fi.Pkg.TypesInfo
		ast.Inspect(fi.Decl.Body, func(n ast.Node) bool {
			call, ok := n.(*ast.CallExpr)
			if !ok {
				return true
			}
			var id *ast.Ident
			switch f := call.Fun.(type) {
			case *ast.Ident:
				id = f
			case *ast.SelectorExpr:
				id = f.Sel
			}
			if id == nil {
				return true
			}
			fn, ok := info.Uses[id].(*types.Func)
			if !ok {
				return true
			}
			if ci, ok := prog.FuncByObj[fn]; ok {
				seen[ci.Key] = true
				return true
			}
			// interface method: every implementation in the loaded packages
			sig, _ := fn.Type().(*types.Signature)
			if sig == nil || sig.Recv() == nil {
				return true
			}
			it, ok := sig.Recv().Type().Underlying().(*types.Interface)
			if !ok {
				return true
			}
			for _, ci := range prog.Funcs {
				if ci.Obj == nil || ci.Obj.Name() != fn.Name() {
					continue
				}
				cs, _ := ci.Obj.Type().(*types.Signature)
				if cs == nil || cs.Recv() == nil {
					continue
				}
				if types.Implements(cs.Recv().Type(), it) {
					seen[ci.Key] = true
				}
			}
			return true
		})
		var l []string
		for k := range seen {
			if k != key {
				l = append(l, k)
			}
		}
		sort.Strings(l)
		graph[key] = l
	}
	data, _ := json.MarshalIndent(graph, "", " ")
	if *out == "" {
		os.Stdout.Write(append(data, '\n'))
		return 0
	}
	if err := os.WriteFile(*out, append(data, '\n'), 0o644); err != nil {
		fmt.Fprintln(os.Stderr, err)
		return 2
	}
	fmt.Printf("%d functions\n", len(graph))
	return 0
}
