package main

// Property checks: selection of obligations per property, discharge, known
// findings, evidence and replay files.

import (
	"encoding/json"
	"flag"
	"fmt"
	"os"
	"os/exec"
	"path/filepath"
	"regexp"
	"sort"
	"strconv"
	"strings"
	"time"
)

type PropFunc struct {
	F     string   `json:"f"`
	Kinds []string `json:"kinds,omitempty"` // restrict to these obligation kinds
	Tags  []string `json:"tags,omitempty"`  // restrict post/inv obligations to these clause tags ("" = untagged)
	Role  string   `json:"role,omitempty"`  // "top" = public function named by the property
	Skip  []string `json:"skip,omitempty"`  // obligations (base names) left undecided on the unchanged tree: not part of the claim, listed in the evidence
}

type BoundedTest struct {
	Pkg   string `json:"pkg"`   // package directory relative to the repository root ("." for the root package)
	File  string `json:"file"`  // in-package Go test file, relative to /verif
	Run   string `json:"run"`   // test function
	Bound string `json:"bound"` // what is enumerated
	Why   string `json:"why"`   // why the functions are outside the verifier's reach
}

type PropSpec struct {
	Title     string        `json:"title"`
	Functions []PropFunc    `json:"functions"`
	Tests     []BoundedTest `json:"bounded_tests,omitempty"`
	Trusted   []string      `json:"trusted_base"`
	Note      string        `json:"note"`
	Bounded   []string      `json:"bounded_note,omitempty"`
}

type KnownFinding struct {
	Property   string `json:"property"`
	Obligation string `json:"obligation"` // obligation name up to the return/visit suffix
	What       string `json:"what"`
	Witness    string `json:"witness,omitempty"`
	Fixed      string `json:"fixed,omitempty"` // "fixed: property=<id> <commit> <what failed>"
}

func verifDir() string {
	if d := os.Getenv("VERIF_DIR"); d != "" {
		return d
	}
	exe, err := os.Executable()
	if err == nil {
		d := filepath.Dir(filepath.Dir(exe))
		if _, err := os.Stat(filepath.Join(d, "properties.jsonl")); err == nil {
			return d
		}
	}
	return "/verif"
}

func loadPropSpecs() (map[string]*PropSpec, error) {
	data, err := os.ReadFile(filepath.Join(verifDir(), "spec", "properties.json"))
	if err != nil {
		return nil, err
	}
	out := map[string]*PropSpec{}
	if err := json.Unmarshal(data, &out); err != nil {
		return nil, err
	}
	return out, nil
}

func loadKnown() ([]KnownFinding, error) {
	data, err := os.ReadFile(filepath.Join(verifDir(), "known_findings.json"))
	if err != nil {
		if os.IsNotExist(err) {
			return nil, nil
		}
		return nil, err
	}
	var out []KnownFinding
	if err := json.Unmarshal(data, &out); err != nil {
		return nil, err
	}
	return out, nil
}

var retSuffix = regexp.MustCompile(`@(r|inl)\d+`)

func baseName(obl string) string { return retSuffix.ReplaceAllString(obl, "") }

func contains(xs []string, s string) bool {
	for _, x := range xs {
		if x == s {
			return true
		}
	}
	return false
}

func cmdCheck(args []string) int {
	fs := flag.NewFlagSet("check", flag.ExitOnError)
	repo := fs.String("repo", "/repo", "repository root")
	tier := fs.String("tier", "quick", "quick|thorough")
	verbose := fs.Bool("v", false, "verbose")
	jobs := fs.Int("j", 16, "parallel solver jobs")
	evDir := fs.String("evidence", "", "evidence directory (default <verif>/evidence)")
	onlyFiles := fs.String("files", "", "development/seed evaluation: restrict the property's function list to the functions edited by this unified diff (already applied to -repo). Callers see only contracts, so the obligations of all other functions are textually those of the unchanged tree")
	// flags may follow the property id
	var prop string
	var rest []string
	for _, a := range args {
		if prop == "" && !strings.HasPrefix(a, "-") {
			prop = a
			continue
		}
		rest = append(rest, a)
	}
	fs.Parse(rest)
	if prop == "" {
		fmt.Fprintln(os.Stderr, "usage: rvc check <property> [--tier quick|thorough]")
		return 2
	}
	if t := os.Getenv("VERIF_TIER"); t != "" && !flagSet(fs, "tier") {
		*tier = t
	}
	seed := 0
	if s := os.Getenv("VERIF_SEED"); s != "" {
		seed, _ = strconv.Atoi(s)
	}
	t0 := time.Now()
	specs, err := loadPropSpecs()
	if err != nil {
		fmt.Fprintln(os.Stderr, "properties.json:", err)
		return 2
	}
	ps := specs[prop]
	if ps == nil {
		fmt.Fprintf(os.Stderr, "property %s is not claimed (no entry in spec/properties.json)\n", prop)
		return 2
	}
	known, err := loadKnown()
	if err != nil {
		fmt.Fprintln(os.Stderr, "known_findings.json:", err)
		return 2
	}
	prog, err := loadProgram(*repo)
	if err != nil {
		fmt.Fprintln(os.Stderr, "load:", err)
		return 2
	}
	if *onlyFiles != "" {
		// the argument is a unified diff (already applied to -repo): keep the functions whose declaration overlaps a hunk
		type rng struct{ lo, hi int }
		hunks := map[string][]rng{}
		if data, err := os.ReadFile(*onlyFiles); err == nil {
			cur := ""
			hre := regexp.MustCompile(`^@@ -\d+(?:,\d+)? \+(\d+)(?:,(\d+))? @@`)
			for _, l := range strings.Split(string(data), "\n") {
				if strings.HasPrefix(l, "+++ b/") {
					cur = strings.TrimPrefix(l, "+++ b/")
				} else if m := hre.FindStringSubmatch(l); m != nil && cur != "" {
					lo, _ := strconv.Atoi(m[1])
					n := 1
					if m[2] != "" {
						n, _ = strconv.Atoi(m[2])
					}
					hunks[cur] = append(hunks[cur], rng{lo, lo + n})
				}
			}
		}
		var keep []PropFunc
		for _, pf := range ps.Functions {
			fi := prog.Funcs[pf.F]
			if fi == nil || fi.Decl == nil {
				continue
			}
			p0 := prog.Fset.Position(fi.Decl.Pos())
			p1 := prog.Fset.Position(fi.Decl.End())
			rel, err := filepath.Rel(*repo, p0.Filename)
			if err != nil {
				continue
			}
			for _, h := range hunks[rel] {
				if h.lo <= p1.Line && p0.Line < h.hi {
					keep = append(keep, pf)
					break
				}
			}
		}
		fmt.Printf("restricted to %d of %d functions (those whose declaration overlaps a hunk of %s)\n", len(keep), len(ps.Functions), *onlyFiles)
		if len(keep) == 0 {
			// the edited code has no contract of its own (it is inlined into its callers): run the whole list
			fmt.Println("none of the property's functions is edited directly by this change: running the whole list")
		} else {
			ps.Functions = keep
		}
	}
	opts := &Options{Unroll: 2, Budget: 10, Smoke: true, Verbose: false, Jobs: *jobs}
	if *tier == "thorough" {
		opts.Unroll = 4
		opts.Budget = 60
	}
	var results []*FuncResult
	var undecided []string
	var extra []*Obligation
	var lemmaGaps []string
	autoLemma := map[string]bool{}
	var selected []*Obligation
	var orphans []string
	var engineErrors []string
	for _, ce := range prog.ContractErrors {
		engineErrors = append(engineErrors, "contract file error: "+ce)
	}
	funcsUnder := 0
	// lemma procedures / pure lemmas used by the listed functions belong to the property as well
	todo := append([]PropFunc(nil), ps.Functions...)
	listed := map[string]bool{}
	for _, pf := range todo {
		listed[pf.F] = true
	}
	for qi := 0; qi < len(todo); qi++ {
		pf := todo[qi]
		fi := prog.Funcs[pf.F]
		ct := prog.Contracts[pf.F]
		if fi != nil && (ct == nil || !ct.Pure) {
			// own contract, or - for an implementation with an annotation-only block or none - the interface contract merged
			// with the annotations (the same choice `rvc verify` makes)
			if c2 := contractFor(prog, fi); c2 != nil {
				ct = c2
			}
		}
		if ct == nil || (fi == nil && !ct.Pure) {
			orphans = append(orphans, pf.F)
			continue
		}
		var fr *FuncResult
		if ct.Pure {
			fr = verifyPureLemma(prog, ct, opts)
		} else {
			fr = verifyFunc(prog, fi, ct, opts)
		}
		if fi != nil && !ct.Pure {
			if own, ic := refinementPair(prog, fi); own != nil {
				fr2 := verifyRefine(prog, fi, own, ic, opts)
				results = append(results, fr2)
				occ2 := occurrences(fr2.Obls)
				for _, o := range fr2.Obls {
					if !o.Smoke && skipped(pf.Skip, o, occ2) {
						undecided = append(undecided, baseName(o.Name)+" -- "+o.Desc)
						if *tier == "thorough" {
							extra = append(extra, o)
						}
						continue
					}
					selected = append(selected, o)
				}
				for _, s := range fr2.SpecErrors {
					engineErrors = append(engineErrors, fr2.Key+": contract error: "+s)
				}
				if fr2.Crashed != "" {
					engineErrors = append(engineErrors, fr2.Key+": engine crash: "+fr2.Crashed)
				}
			}
		}
		for _, l := range fr.UsedLemmas {
			if !listed[l] {
				listed[l] = true
				lf := PropFunc{F: l}
				if ls := specs["_lemmas"]; ls != nil {
					for _, x := range ls.Functions {
						if x.F == l {
							lf = x
						}
					}
				}
				if len(lf.Skip) > 0 {
					lemmaGaps = append(lemmaGaps, l)
				}
				autoLemma[l] = true
				todo = append(todo, lf)
			}
		}
		results = append(results, fr)
		if fr.Trusted {
			continue
		}
		funcsUnder++
		if fr.Crashed != "" {
			engineErrors = append(engineErrors, pf.F+": engine crash: "+fr.Crashed)
		}
		for _, s := range fr.SpecErrors {
			engineErrors = append(engineErrors, pf.F+": contract error: "+s)
		}
		n := 0
		occ := occurrences(fr.Obls)
		for _, o := range fr.Obls {
			if len(pf.Kinds) > 0 && !contains(pf.Kinds, o.Kind) && !o.Smoke {
				continue
			}
			if len(pf.Tags) > 0 && (o.Kind == "post" || o.Kind == "inv") && !contains(pf.Tags, tagName(o.Tag)) {
				continue
			}
			if !o.Smoke && skipped(pf.Skip, o, occ) {
				undecided = append(undecided, baseName(o.Name)+" -- "+o.Desc)
				if *tier == "thorough" {
					extra = append(extra, o) // attempted with the long budget, reported, never a violation
				}
				continue
			}
			selected = append(selected, o)
			if !o.Smoke {
				n++
			}
		}
		if n == 0 {
			if autoLemma[pf.F] {
				// a lemma pulled in by a `use` clause whose own proof is entirely undecided: an assumption, not an error
				if !contains(lemmaGaps, pf.F) {
					lemmaGaps = append(lemmaGaps, pf.F)
				}
			} else {
				engineErrors = append(engineErrors, pf.F+": no obligation generated for this property (vacuous selection)")
			}
		}
	}
	if len(selected) == 0 {
		fmt.Fprintf(os.Stderr, "check %s: no obligations generated (orphans: %v)\n", prop, orphans)
		return 2
	}
	discharge(selected, opts)
	// second chance for stragglers: sequential, longer budget (guards against load-induced timeouts)
	var stragglers []*Obligation
	for _, o := range selected {
		if !o.Smoke && o.Res.Status != "unsat" && o.Res.Status != "error" {
			stragglers = append(stragglers, o)
		}
	}
	if len(stragglers) > 0 && len(stragglers) <= 400 {
		// (no small cap: with a cap, a machine busy enough to delay more obligations than the cap would turn all of them into alarms)
		o2 := *opts
		o2.Budget = opts.Budget * 3
		o2.Jobs = 4
		if len(stragglers) > 24 {
			o2.Jobs = 8
		}
		discharge(stragglers, &o2)
	}
	// the bit/popcount lemma library is a premise of every word-level function: re-prove it on this run
	lemmaLib := map[string]interface{}{"used": false}
	for _, fr := range results {
		if fr.WordMode {
			lemmaLib["used"] = true
		}
	}
	if lemmaLib["used"] == true {
		facts, inst, lf, slowest, msgs := proveLemmaLibrary(false)
		lemmaLib = map[string]interface{}{"used": true, "facts": facts, "instances_reproved": inst - lf, "failed": lf, "slowest_s": round2(slowest)}
		for _, m := range msgs {
			if strings.HasPrefix(m, "LEMMA NOT PROVED") {
				engineErrors = append(engineErrors, "bit lemma library: "+m)
			}
		}
	}
	extraDone := 0
	if len(extra) > 0 {
		discharge(extra, opts)
		for _, o := range extra {
			if o.Res.Status == "unsat" {
				extraDone++
			}
		}
	}
	// classify
	type failure struct {
		o     *Obligation
		known *KnownFinding
	}
	var failures []failure
	total, discharged := 0, 0
	bTotal, bDischarged := 0, 0
	bySolver := map[string]int{}
	solverTime := 0.0
	var smokeUnsat []string
	smokeChecked := 0
	type slow struct {
		Name string  `json:"obligation"`
		T    float64 `json:"s"`
		S    string  `json:"solver"`
	}
	var slows []slow
	knownSeen := map[string]bool{}
	for _, o := range selected {
		solverTime += o.Res.Time
		if o.Smoke {
			smokeChecked++
			if o.Res.Status == "unsat" {
				smokeUnsat = append(smokeUnsat, o.Name)
			}
			continue
		}
		if o.Res.Status == "error" {
			engineErrors = append(engineErrors, o.Name+": solver rejected the query: "+firstLine(o.Res.Output))
			continue
		}
		ok := o.Res.Status == "unsat"
		var kf *KnownFinding
		if !ok {
			for i := range known {
				k := &known[i]
				if k.Fixed == "" && k.Property == prop && k.Obligation == baseName(o.Name) {
					kf = k
				}
			}
		}
		if kf != nil {
			knownSeen[kf.Obligation] = true
			failures = append(failures, failure{o, kf})
			continue
		}
		if o.Bounded > 0 && !ok && *tier == "thorough" && o.Res.Status != "sat" {
			// deeper unrolling (K=4) than the depth the selection was validated at: an inconclusive solver answer is
			// reported as undecided, only a counterexample is a violation
			undecided = append(undecided, baseName(o.Name)+" -- bounded(K="+strconv.Itoa(o.Bounded)+") inconclusive in the thorough tier: "+o.Desc)
			continue
		}
		if o.Bounded > 0 {
			bTotal++
			if ok {
				bDischarged++
			}
		} else {
			total++
			if ok {
				discharged++
			}
		}
		if ok {
			bySolver[o.Res.Solver]++
			slows = append(slows, slow{o.Name, round2(o.Res.Time), o.Res.Solver})
		} else {
			failures = append(failures, failure{o, nil})
		}
	}
	sort.Slice(slows, func(i, j int) bool { return slows[i].T > slows[j].T })
	if len(slows) > 8 {
		slows = slows[:8]
	}
	// bounded stand-ins for functions outside the verifier's reach (goroutines, container/heap ...): small-scope
	// enumeration on the real code through `go test -overlay`; labelled bounded, never counted as proved
	type boundedRun struct {
		Test   string  `json:"test"`
		Bound  string  `json:"bound"`
		Why    string  `json:"why"`
		Cases  int     `json:"cases"`
		Passed bool    `json:"passed"`
		Wall   float64 `json:"wall_s"`
	}
	var boundedRuns []boundedRun
	type boundedFail struct {
		t      BoundedTest
		output string
		input  string
	}
	var boundedFails []boundedFail
	for _, bt := range ps.Tests {
		tb := time.Now()
		out, cases, input, ok := runBoundedTest(*repo, bt)
		boundedRuns = append(boundedRuns, boundedRun{bt.File + ":" + bt.Run, bt.Bound, bt.Why, cases, ok, round2(time.Since(tb).Seconds())})
		if !ok {
			if input == "" && !strings.Contains(out, "--- FAIL") {
				engineErrors = append(engineErrors, "bounded stand-in "+bt.Run+" could not be run: "+firstLine(out))
			} else {
				boundedFails = append(boundedFails, boundedFail{bt, out, input})
			}
		}
	}
	// output
	ev := *evDir
	if ev == "" {
		ev = filepath.Join(verifDir(), "evidence")
	}
	os.MkdirAll(ev, 0o755)
	violations := 0
	exit := 0
	var lines []string
	printedKnown := map[string]bool{}
	for _, f := range failures {
		if f.known != nil {
			if !printedKnown[f.known.Obligation] {
				printedKnown[f.known.Obligation] = true
				lines = append(lines, fmt.Sprintf("KNOWN-FINDING: property=%s %s: %s", prop, f.known.Obligation, f.known.What))
			}
			continue
		}
		violations++
		rp, confirmed := writeReplay(ev, prop, f.o, *repo)
		suffix := " no-failing-input-found"
		if confirmed {
			suffix = " failing-input-replayed-on-real-code"
		}
		lines = append(lines, fmt.Sprintf("VIOLATION property=%s replay=%s obligation=%s status=%s%s", prop, rp, f.o.Name, f.o.Res.Status, suffix))
		exit = 1
	}
	for _, bf := range boundedFails {
		violations++
		dir := filepath.Join(ev, "replay", prop)
		os.MkdirAll(dir, 0o755)
		rp := filepath.Join(dir, "bounded_"+sanitize(bf.t.Run)+".json")
		rec := map[string]interface{}{"property": prop, "kind": "bounded stand-in (small-scope enumeration on the real code)", "test": bf.t.File, "run": bf.t.Run,
			"failing_input": bf.input, "output": bf.output, "rerun": fmt.Sprintf("./tools_replay.sh %s %s %s %s", bf.t.Pkg, bf.t.File, bf.t.Run, *repo)}
		data, _ := json.MarshalIndent(rec, "", " ")
		os.WriteFile(rp, append(data, '\n'), 0o644)
		suffix := ""
		if bf.input == "" {
			suffix = " no-failing-input-found"
		}
		lines = append(lines, fmt.Sprintf("VIOLATION property=%s replay=%s bounded-test=%s failing-input=%q%s", prop, rp, bf.t.Run, bf.input, suffix))
		exit = 1
	}
	for _, l := range lines {
		fmt.Println(l)
	}
	// evidence
	var assumptions []string
	aset := map[string]bool{}
	var unrolled, inlined, trustedContracts, unsupported []string
	for _, fr := range results {
		for _, a := range fr.Assumptions {
			if !aset[a] {
				aset[a] = true
				assumptions = append(assumptions, a)
			}
		}
		unrolled = append(unrolled, fr.Unrolled...)
		for _, k := range fr.Inlined {
			if !contains(inlined, k) {
				inlined = append(inlined, k)
			}
		}
		if fr.Trusted {
			trustedContracts = append(trustedContracts, fr.Key)
		}
		for _, u := range fr.Unsupported {
			unsupported = append(unsupported, fr.Key+": "+u)
		}
	}
	// contracts of callees that were applied but whose bodies are not verified by this check
	verified := map[string]bool{}
	for _, fr := range results {
		if !fr.Trusted {
			verified[fr.Key] = true
		}
	}
	calleeSet := map[string]bool{}
	for _, fr := range results {
		for _, c := range fr.Callees {
			if !verified[c] {
				calleeSet[c] = true
			}
		}
	}
	var unverifiedCallees []string
	for c := range calleeSet {
		unverifiedCallees = append(unverifiedCallees, c)
	}
	sort.Strings(unverifiedCallees)
	sort.Strings(assumptions)
	for _, c := range unverifiedCallees {
		assumptions = append(assumptions, "callee contract applied at a call site but its body is not verified by this check: "+c)
	}
	assumptions = append(assumptions,
		"signed int/int64 arithmetic is treated as mathematical (no overflow obligation); sized unsigned and int8/16/32 arithmetic is exact modulo 2^N",
		"Go semantics of the supported subset as implemented by rvc (evaluation order, append growth as 'some capacity >= needed', copy as memmove, zero values); allocation never fails other than through the make# obligation",
		"SMT solvers z3 5.1.0 / z3 4.8.12 / cvc5 1.0 are trusted; an unsat from any one of them is accepted")
	for _, br := range boundedRuns {
		assumptions = append(assumptions, fmt.Sprintf("BOUNDED (not proved): %s checked only by small-scope enumeration (%s; %d cases this run) because %s", br.Test, br.Bound, br.Cases, br.Why))
	}
	for _, l := range lemmaGaps {
		assumptions = append(assumptions, "lemma used as a premise although part of its own proof is undecided (listed under coverage.undecided_excluded): "+l)
	}
	for _, t := range trustedContracts {
		assumptions = append(assumptions, "assumed contract (body not verified): "+t)
	}
	for _, u := range unsupported {
		assumptions = append(assumptions, "outside the supported subset, abstracted: "+u)
	}
	var samples []map[string]interface{}
	for i, o := range selected {
		if o.Smoke || len(samples) >= 6 {
			continue
		}
		if i%(len(selected)/6+1) == 0 {
			samples = append(samples, map[string]interface{}{"obligation": o.Name, "kind": o.Kind, "at": o.Pos, "what": o.Desc,
				"answer": o.Res.Status, "solver": o.Res.Solver, "s": round2(o.Res.Time), "premises": o.NAssump, "case_splits": o.NSplit})
		}
	}
	var knownList []string
	for k := range knownSeen {
		knownList = append(knownList, k)
	}
	sort.Strings(knownList)
	cov := map[string]interface{}{
		"obligations":              total,
		"discharged":               discharged,
		"checker_cmd":              fmt.Sprintf("bin/rvc check %s --tier %s  (VCs generated from %s on this run; solvers z3-new, z3, cvc5)", prop, *tier, *repo),
		"trusted_base":             trustedBase(ps.Trusted, trustedContracts),
		"functions_under_contract": funcsUnder,
		"functions":                funcList(ps),
		"bounded":                  map[string]interface{}{"checked": bTotal, "passed": bDischarged, "K": opts.Unroll, "loops": unrolled, "note": "obligations that depend on a loop unrolled K times under an unwinding assumption; never counted in obligations/discharged"},
		"by_solver":                bySolver,
		"solver_time_s":            round2(solverTime),
		"slowest":                  slows,
		"samples":                  samples,
		"vacuity":                  map[string]interface{}{"smoke_checked": smokeChecked, "smoke_false_derivable": smokeUnsat},
		"orphan_contracts":         orphans,
		"undecided_excluded":       undecided,
		"undecided_attempted":      map[string]int{"attempted": len(extra), "discharged_this_run": extraDone},
		"lemma_library":            lemmaLib,
		"bounded_standins":         boundedRuns,
		"inlined_uncontracted":     inlined,
		"known_findings_seen":      knownList,
		"engine_errors":            engineErrors,
		"explanation":              ps.Note,
	}
	evidence := map[string]interface{}{
		"property_id": prop, "tier": *tier, "seed": seed, "level": "proof", "coverage": cov,
		"assumptions": assumptions, "wall_s": round2(time.Since(t0).Seconds()), "violations": violations,
	}
	data, _ := json.MarshalIndent(evidence, "", " ")
	os.WriteFile(filepath.Join(ev, prop+".json"), append(data, '\n'), 0o644)
	fmt.Printf("%s %s: %d/%d unbounded obligations discharged, %d/%d bounded(K=%d), %d functions, %d known findings, %.1fs\n",
		prop, *tier, discharged, total, bDischarged, bTotal, opts.Unroll, funcsUnder, len(knownList), time.Since(t0).Seconds())
	if *verbose {
		for _, f := range failures {
			fmt.Printf("  failed: %s [%s] %s -- %s\n", f.o.Name, f.o.Res.Status, f.o.Pos, f.o.Desc)
		}
	}
	if len(engineErrors) > 0 {
		for _, s := range engineErrors {
			fmt.Fprintln(os.Stderr, "ENGINE ERROR:", s)
		}
		if exit == 0 {
			exit = 2
		}
	}
	return exit
}

// skipKey identifies an obligation independently of ordinals: function, kind and description (source text of the
// clause or of the checked expression).
func skipKey(o *Obligation) string { return o.Func + "/" + o.Kind + "|" + o.Desc }

// occurrences numbers, per function result, the obligations that share a skip key (same function, kind and clause text:
// the same postcondition at several returns, the same lemma precondition at several applications): index -> (i, n).
func occurrences(obls []*Obligation) map[*Obligation][2]int {
	n := map[string]int{}
	for _, o := range obls {
		if !o.Smoke {
			n[skipKey(o)]++
		}
	}
	seen := map[string]int{}
	out := map[*Obligation][2]int{}
	for _, o := range obls {
		if o.Smoke {
			continue
		}
		k := skipKey(o)
		out[o] = [2]int{seen[k], n[k]}
		seen[k]++
	}
	return out
}

// skipped: a skip entry is the obligation's base name, its key (every occurrence), or `key||i/n` (occurrence i of n). If the
// number of occurrences differs from the n recorded by the status run (the function's structure changed), every occurrence
// of that key is skipped, as with the plain key.
func skipped(skip []string, o *Obligation, occ map[*Obligation][2]int) bool {
	if contains(skip, baseName(o.Name)) {
		return true
	}
	k := skipKey(o)
	if contains(skip, k) {
		return true
	}
	pre := k + "||"
	in := occ[o]
	hit := false
	for _, e := range skip {
		if !strings.HasPrefix(e, pre) {
			continue
		}
		var i, n int
		if _, err := fmt.Sscanf(e[len(pre):], "%d/%d", &i, &n); err != nil || n != in[1] {
			return true
		}
		if i == in[0] {
			hit = true
		}
	}
	return hit
}

func funcList(ps *PropSpec) []string {
	var out []string
	for _, f := range ps.Functions {
		out = append(out, f.F)
	}
	return out
}

func flagSet(fs *flag.FlagSet, name string) bool {
	found := false
	fs.Visit(func(f *flag.Flag) {
		if f.Name == name {
			found = true
		}
	})
	return found
}

func firstLine(s string) string {
	s = strings.TrimSpace(s)
	if i := strings.IndexByte(s, '\n'); i >= 0 {
		return s[:i]
	}
	return s
}

func round2(x float64) float64 { return float64(int(x*100+0.5)) / 100 }

// writeReplay records a failed obligation: what failed, where, the solver's answer and
// the query, so that it can be re-run (`rvc replay <file>`).
func writeReplay(ev, prop string, o *Obligation, repo string) (string, bool) {
	dir := filepath.Join(ev, "replay", prop)
	os.MkdirAll(dir, 0o755)
	base := sanitize(o.Name)
	qfile := filepath.Join(dir, base+".smt2")
	os.WriteFile(qfile, []byte(z3Pre+o.query()+"(check-sat)\n"), 0o644)
	rp := filepath.Join(dir, base+".json")
	model := ""
	if o.Res.Status == "sat" {
		// quantifier-free failure: keep the solver's counterexample (values of the symbolic inputs) with the record
		mr := solve(o.query(), 10, true)
		model = mr.Output
		if len(model) > 6000 {
			model = model[:6000] + "\n..."
		}
	}
	var cex cexResult
	note := "the verifier produced no model that replays on the real code (quantified obligation or timeout): no-failing-input-found"
	var failing interface{}
	if o.Res.Status == "sat" {
		cex = replayCounterexample(o, repo)
		switch {
		case cex.Confirmed:
			failing = cex.Input
			note = "the solver's counterexample was replayed on the real code and confirmed: " + cex.Verdict
			os.WriteFile(filepath.Join(dir, base+"_replay_test.go.txt"), []byte(cex.TestSrc), 0o644)
		case cex.Why != "":
			note = "the solver's counterexample was not replayed (" + cex.Why + "): no-failing-input-found"
		default:
			note = "the solver's counterexample did not replay on the real code (" + cex.Verdict + "): no-failing-input-found"
			os.WriteFile(filepath.Join(dir, base+"_replay_test.go.txt"), []byte(cex.TestSrc), 0o644)
		}
	}
	replayTest, replayPkg := "", ""
	if cex.TestSrc != "" {
		replayTest = filepath.Join(dir, base+"_replay_test.go.txt")
		replayPkg = cex.PkgRel
	}
	rec := map[string]interface{}{
		"replay_test":    replayTest,
		"replay_pkg":     replayPkg,
		"replay_verdict": cex.Verdict,
		"replay_log":     cex.Log,
		"solver_model":   model,
		"property":       prop,
		"obligation":     o.Name,
		"kind":           o.Kind,
		"function":       o.Func,
		"at":             o.Pos,
		"what":           o.Desc,
		"solver_status":  o.Res.Status,
		"solver":         o.Res.Solver,
		"solver_output":  o.Res.Output,
		"query":          qfile,
		"repo":           repo,
		"failing_input":  failing,
		"note":           note,
		"rerun":          fmt.Sprintf("bin/rvc replay %s", rp),
		"bounded_unroll": o.Bounded,
	}
	data, _ := json.MarshalIndent(rec, "", " ")
	os.WriteFile(rp, append(data, '\n'), 0o644)
	return rp, cex.Confirmed
}

func cmdReplay(args []string) int {
	if len(args) < 1 {
		fmt.Fprintln(os.Stderr, "usage: rvc replay <file>")
		return 2
	}
	data, err := os.ReadFile(args[0])
	if err != nil {
		fmt.Fprintln(os.Stderr, err)
		return 2
	}
	var rec map[string]interface{}
	if err := json.Unmarshal(data, &rec); err != nil {
		fmt.Fprintln(os.Stderr, err)
		return 2
	}
	if k, _ := rec["kind"].(string); strings.HasPrefix(k, "bounded stand-in") {
		// a failing input found by a bounded stand-in: re-run that test against the repository
		file, _ := rec["test"].(string)
		run, _ := rec["run"].(string)
		repo := "/repo"
		if len(args) > 1 {
			repo = args[1]
		}
		pkg := "."
		if specs, err := loadPropSpecs(); err == nil {
			for _, ps := range specs {
				for _, bt := range ps.Tests {
					if bt.File == file && bt.Run == run {
						pkg = bt.Pkg
					}
				}
			}
		}
		out, cases, input, ok := runBoundedTest(repo, BoundedTest{Pkg: pkg, File: file, Run: run})
		fmt.Printf("bounded stand-in %s:%s against %s: %d cases, passed=%v\n", file, run, repo, cases, ok)
		if !ok {
			fmt.Printf("failing input: %s\n", input)
			if input == "" {
				fmt.Println(out)
			}
			return 1
		}
		return 0
	}
	fmt.Printf("obligation %v at %v\n  %v\n", rec["obligation"], rec["at"], rec["what"])
	if tf, _ := rec["replay_test"].(string); tf != "" {
		// the counterexample's generated Go test: run it against the repository (second argument, default /repo)
		repo := "/repo"
		if len(args) > 1 {
			repo = args[1]
		}
		pkg, _ := rec["replay_pkg"].(string)
		src, err := os.ReadFile(tf)
		if err == nil {
			out, err := runReplaySrc(filepath.Join(repo, pkg), string(src))
			fmt.Printf("replay of the counterexample against %s (package %s):\n", repo, pkg)
			for _, l := range strings.Split(out, "\n") {
				if strings.Contains(l, "RVC-REPLAY") {
					fmt.Println("  " + strings.TrimSpace(l))
				}
			}
			if err != nil {
				fmt.Println("  (the test did not run: " + err.Error() + ")")
			}
		}
	}
	q, _ := rec["query"].(string)
	qd, err := os.ReadFile(q)
	if err != nil {
		fmt.Fprintln(os.Stderr, "query file:", err)
		return 2
	}
	body := strings.TrimSuffix(strings.TrimPrefix(string(qd), z3Pre), "(check-sat)\n")
	r := solve(body, 30, false)
	fmt.Printf("re-run of the recorded query: %s (%s, %.2fs)\n", r.Status, r.Solver, r.Time)
	if r.Status == "unsat" {
		fmt.Println("the recorded obligation now discharges")
		return 0
	}
	fmt.Println("the obligation still fails")
	return 1
}

func tagName(t string) string {
	if i := strings.IndexByte(t, ':'); i >= 0 {
		return t[:i]
	}
	return t
}

var boundedCasesRe = regexp.MustCompile(`BOUNDED-CASES (\d+)`)
var failingInputRe = regexp.MustCompile(`FAILING-INPUT (.*)`)

// runBoundedTest runs an in-package Go test of /verif against the repository through an overlay (nothing is written
// into the repository) and returns its output, the number of cases it reports, and the failing input if any.
func runBoundedTest(repo string, bt BoundedTest) (out string, cases int, input string, ok bool) {
	scratch := os.Getenv("VERIF_SCRATCH")
	if scratch == "" {
		scratch = "/var/tmp"
	}
	d, err := os.MkdirTemp(scratch, "rvc-bounded-")
	if err != nil {
		return err.Error(), 0, "", false
	}
	defer os.RemoveAll(d)
	src := filepath.Join(verifDir(), bt.File)
	dst := filepath.Join(repo, bt.Pkg, "zz_bounded_verif_test.go")
	ov := fmt.Sprintf("{\"Replace\": {%q: %q}}\n", dst, src)
	ovf := filepath.Join(d, "ov.json")
	os.WriteFile(ovf, []byte(ov), 0o644)
	cmd := exec.Command("go", "test", "-overlay", ovf, "-vet=off", "-count=1", "-timeout", "600s", "-v", "-run", "^"+bt.Run+"$", ".")
	cmd.Dir = filepath.Join(repo, bt.Pkg)
	cmd.Env = append(os.Environ(), "GOFLAGS=-mod=mod", "GOPROXY=off", "GOSUMDB=off", "GOTOOLCHAIN=local")
	b, err := cmd.CombinedOutput()
	out = string(b)
	if len(out) > 8000 {
		out = out[len(out)-8000:]
	}
	if m := boundedCasesRe.FindStringSubmatch(out); m != nil {
		cases, _ = strconv.Atoi(m[1])
	}
	if m := failingInputRe.FindStringSubmatch(out); m != nil {
		input = strings.TrimSpace(m[1])
	}
	ok = err == nil && strings.Contains(out, "\nok") && cases > 0
	return
}

func trustedBase(extra, trustedContracts []string) []string {
	out := []string{
		"rvc (this verification-condition generator) and its model of the supported Go subset",
		"go/packages + go/types (typed AST of /repo's current working tree)",
		"SMT solvers z3 5.1.0, z3 4.8.12, cvc5 1.0.3 (an unsat of any one is accepted)",
		"definitional facts of the bit library (tz, lz, wcnt, wordeq) and the standard-library models listed under assumptions",
	}
	for _, t := range trustedContracts {
		out = append(out, "assumed contract: "+t)
	}
	return append(out, extra...)
}
