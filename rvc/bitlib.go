package main

// The bit / popcount lemma library. In verification conditions a 64-bit word is a
// bit-vector, bit tests go through the uninterpreted predicate bitU(w,k) and popcnt(w) is
// uninterpreted; the facts below connect them. Every fact is re-proved by `rvc lemmas`
// against the definitions (bit k of w; popcount = number of one bits) as one pure QF_BV/LIA
// query per bit index.

import (
	"fmt"
	"os"
	"strings"
	"sync"
)

type bitLemma struct {
	Name string
	// Axiom is the quantified fact used in VCs; variables w,a,b: words, k,j: bit indices.
	Axiom string
	// Proof returns the formula to be proved (closed over w/a/b) for a concrete k; it may
	// mention bitD(w,j) (definition of a bit) and popD(w) (definition of popcount).
	Proof func(k int) string
	PerK  bool
	// Cuts: intermediate facts, each proved by its own query; the Proof formula is then proved under their conjunction
	Cuts func(k int) []string
	// Assumed: not proved but taken as the definition of the function it talks about (stdlib math/bits, or the spec function wcnt)
	Assumed string
}

const one = "#x0000000000000001"
const zero = "#x0000000000000000"
const ones = "#xffffffffffffffff"

func shl1(k string) string { return "(bvshl " + one + " (shamt " + k + "))" }
func kc(k int) string      { return fmt.Sprintf("#x%016x", uint64(1)<<uint(k)) }

// bitD: definition of bit j of w for concrete j.
func bitD(w string, j int) string {
	return fmt.Sprintf("(= ((_ extract %d %d) %s) #b1)", j, j, w)
}

func popD(w string) string {
	var b strings.Builder
	b.WriteString("(+")
	for i := 0; i < 64; i++ {
		fmt.Fprintf(&b, " (ite %s 1 0)", bitD(w, i))
	}
	b.WriteString(")")
	return b.String()
}

// wcntD: number of one bits of w below position k (definition, concrete k).
func wcntD(w string, k int) string {
	if k <= 0 {
		return "0"
	}
	var b strings.Builder
	b.WriteString("(+ 0")
	for i := 0; i < k && i < 64; i++ {
		fmt.Fprintf(&b, " (ite %s 1 0)", bitD(w, i))
	}
	b.WriteString(")")
	return b.String()
}

func forallJ(f func(j int) string) string {
	var b strings.Builder
	b.WriteString("(and")
	for j := 0; j < 64; j++ {
		b.WriteString(" " + f(j))
	}
	b.WriteString(")")
	return b.String()
}

func boolEq(a, b string) string { return "(= " + a + " " + b + ")" }

const kRange = "(and (<= 0 k) (< k 64))"
const jRange = "(and (<= 0 j) (< j 64))"

var bitLemmas = []bitLemma{
	{Name: "test-and-mask", PerK: true,
		Axiom: "(forall ((w (_ BitVec 64)) (k Int)) (! (=> " + kRange + " (= (= (bvand w " + shl1("k") + ") " + zero + ") (not (bitU w k)))) :pattern ((bvand w " + shl1("k") + "))))",
		Proof: func(k int) string {
			return boolEq("(= (bvand w "+kc(k)+") "+zero+")", "(not "+bitD("w", k)+")")
		}},
	{Name: "test-shift-and-1", PerK: true,
		Axiom: "(forall ((w (_ BitVec 64)) (k Int)) (! (=> " + kRange + " (= (bvand (bvlshr w (shamt k)) " + one + ") (ite (bitU w k) " + one + " " + zero + "))) :pattern ((bvand (bvlshr w (shamt k)) " + one + "))))",
		Proof: func(k int) string {
			return fmt.Sprintf("(= (bvand (bvlshr w #x%016x) %s) (ite %s %s %s))", k, one, bitD("w", k), one, zero)
		}},
	{Name: "set-bit-fixpoint", PerK: true,
		Axiom: "(forall ((w (_ BitVec 64)) (k Int)) (! (=> " + kRange + " (= (= (bvor w " + shl1("k") + ") w) (bitU w k))) :pattern ((bvor w " + shl1("k") + "))))",
		Proof: func(k int) string {
			return boolEq("(= (bvor w "+kc(k)+") w)", bitD("w", k))
		}},
	{Name: "clear-bit-fixpoint", PerK: true,
		Axiom: "(forall ((w (_ BitVec 64)) (k Int)) (! (=> " + kRange + " (= (= (bvand w (bvnot " + shl1("k") + ")) w) (not (bitU w k)))) :pattern ((bvand w (bvnot " + shl1("k") + ")))))",
		Proof: func(k int) string {
			return boolEq("(= (bvand w (bvnot "+kc(k)+")) w)", "(not "+bitD("w", k)+")")
		}},
	{Name: "set-bit", PerK: true,
		Axiom: "(forall ((w (_ BitVec 64)) (k Int) (j Int)) (! (=> (and " + kRange + " " + jRange + ") (= (bitU (bvor w " + shl1("k") + ") j) (or (bitU w j) (= j k)))) :pattern ((bitU (bvor w " + shl1("k") + ") j))))",
		Proof: func(k int) string {
			return forallJ(func(j int) string {
				return boolEq(bitD("(bvor w "+kc(k)+")", j), fmt.Sprintf("(or %s %v)", bitD("w", j), j == k))
			})
		}},
	{Name: "clear-bit", PerK: true,
		Axiom: "(forall ((w (_ BitVec 64)) (k Int) (j Int)) (! (=> (and " + kRange + " " + jRange + ") (= (bitU (bvand w (bvnot " + shl1("k") + ")) j) (and (bitU w j) (not (= j k))))) :pattern ((bitU (bvand w (bvnot " + shl1("k") + ")) j))))",
		Proof: func(k int) string {
			return forallJ(func(j int) string {
				return boolEq(bitD("(bvand w (bvnot "+kc(k)+"))", j), fmt.Sprintf("(and %s %v)", bitD("w", j), j != k))
			})
		}},
	{Name: "flip-bit", PerK: true,
		Axiom: "(forall ((w (_ BitVec 64)) (k Int) (j Int)) (! (=> (and " + kRange + " " + jRange + ") (= (bitU (bvxor w " + shl1("k") + ") j) (xor (bitU w j) (= j k)))) :pattern ((bitU (bvxor w " + shl1("k") + ") j))))",
		Proof: func(k int) string {
			return forallJ(func(j int) string {
				return boolEq(bitD("(bvxor w "+kc(k)+")", j), fmt.Sprintf("(xor %s %v)", bitD("w", j), j == k))
			})
		}},
	{Name: "bit-of-and",
		Axiom: "(forall ((a (_ BitVec 64)) (b (_ BitVec 64)) (j Int)) (! (=> " + jRange + " (= (bitU (bvand a b) j) (and (bitU a j) (bitU b j)))) :pattern ((bitU (bvand a b) j))))",
		Proof: func(k int) string {
			return forallJ(func(j int) string {
				return boolEq(bitD("(bvand a b)", j), "(and "+bitD("a", j)+" "+bitD("b", j)+")")
			})
		}},
	{Name: "bit-of-or",
		Axiom: "(forall ((a (_ BitVec 64)) (b (_ BitVec 64)) (j Int)) (! (=> " + jRange + " (= (bitU (bvor a b) j) (or (bitU a j) (bitU b j)))) :pattern ((bitU (bvor a b) j))))",
		Proof: func(k int) string {
			return forallJ(func(j int) string {
				return boolEq(bitD("(bvor a b)", j), "(or "+bitD("a", j)+" "+bitD("b", j)+")")
			})
		}},
	{Name: "bit-of-xor",
		Axiom: "(forall ((a (_ BitVec 64)) (b (_ BitVec 64)) (j Int)) (! (=> " + jRange + " (= (bitU (bvxor a b) j) (xor (bitU a j) (bitU b j)))) :pattern ((bitU (bvxor a b) j))))",
		Proof: func(k int) string {
			return forallJ(func(j int) string {
				return boolEq(bitD("(bvxor a b)", j), "(xor "+bitD("a", j)+" "+bitD("b", j)+")")
			})
		}},
	{Name: "bit-of-not",
		Axiom: "(forall ((a (_ BitVec 64)) (j Int)) (! (=> " + jRange + " (= (bitU (bvnot a) j) (not (bitU a j)))) :pattern ((bitU (bvnot a) j))))",
		Proof: func(k int) string {
			return forallJ(func(j int) string {
				return boolEq(bitD("(bvnot a)", j), "(not "+bitD("a", j)+")")
			})
		}},
	{Name: "bit-of-constants",
		Axiom: "(forall ((j Int)) (! (=> " + jRange + " (and (not (bitU " + zero + " j)) (bitU " + ones + " j))) :pattern ((bitU " + zero + " j)) :pattern ((bitU " + ones + " j))))",
		Proof: func(k int) string {
			return forallJ(func(j int) string {
				return "(and (not " + bitD(zero, j) + ") " + bitD(ones, j) + ")"
			})
		}},
	{Name: "extensionality",
		Axiom: "(forall ((a (_ BitVec 64)) (b (_ BitVec 64))) (! (=> (forall ((j Int)) (=> " + jRange + " (= (bitU a j) (bitU b j)))) (= a b)) :pattern ((wordeq a b))))",
		Proof: func(k int) string {
			return "(=> " + forallJ(func(j int) string { return boolEq(bitD("a", j), bitD("b", j)) }) + " (= a b))"
		}},
	{Name: "popcnt-range",
		Axiom: "(forall ((w (_ BitVec 64))) (! (and (<= 0 (popcnt w)) (<= (popcnt w) 64) (= (= (popcnt w) 0) (= w " + zero + ")) (= (= (popcnt w) 64) (= w " + ones + "))) :pattern ((popcnt w))))",
		Proof: func(k int) string {
			return "(and (<= 0 " + popD("w") + ") (<= " + popD("w") + " 64) (= (= " + popD("w") + " 0) (= w " + zero + ")) (= (= " + popD("w") + " 64) (= w " + ones + ")))"
		}},
	{Name: "popcnt-set-bit", PerK: true,
		Axiom: "(forall ((w (_ BitVec 64)) (k Int)) (! (=> " + kRange + " (= (popcnt (bvor w " + shl1("k") + ")) (+ (popcnt w) (ite (bitU w k) 0 1)))) :pattern ((popcnt (bvor w " + shl1("k") + ")))))",
		Proof: func(k int) string {
			return "(= " + popD("(bvor w "+kc(k)+")") + " (+ " + popD("w") + " (ite " + bitD("w", k) + " 0 1)))"
		}},
	{Name: "popcnt-clear-bit", PerK: true,
		Axiom: "(forall ((w (_ BitVec 64)) (k Int)) (! (=> " + kRange + " (= (popcnt (bvand w (bvnot " + shl1("k") + "))) (- (popcnt w) (ite (bitU w k) 1 0)))) :pattern ((popcnt (bvand w (bvnot " + shl1("k") + "))))))",
		Proof: func(k int) string {
			return "(= " + popD("(bvand w (bvnot "+kc(k)+"))") + " (- " + popD("w") + " (ite " + bitD("w", k) + " 1 0)))"
		}},
	{Name: "popcnt-flip-bit", PerK: true,
		Axiom: "(forall ((w (_ BitVec 64)) (k Int)) (! (=> " + kRange + " (= (popcnt (bvxor w " + shl1("k") + ")) (+ (popcnt w) (ite (bitU w k) (- 1) 1)))) :pattern ((popcnt (bvxor w " + shl1("k") + ")))))",
		Proof: func(k int) string {
			return "(= " + popD("(bvxor w "+kc(k)+")") + " (+ " + popD("w") + " (ite " + bitD("w", k) + " (- 1) 1)))"
		}},
	{Name: "bit-of-shl", PerK: true,
		Axiom: "(forall ((w (_ BitVec 64)) (k Int) (j Int)) (! (=> (and " + kRange + " " + jRange + ") (= (bitU (bvshl w (shamt k)) j) (and (>= j k) (bitU w (- j k))))) :pattern ((bitU (bvshl w (shamt k)) j))))",
		Proof: func(k int) string {
			return forallJ(func(j int) string {
				if j >= k {
					return boolEq(bitD(fmt.Sprintf("(bvshl w #x%016x)", k), j), bitD("w", j-k))
				}
				return "(not " + bitD(fmt.Sprintf("(bvshl w #x%016x)", k), j) + ")"
			})
		}},
	{Name: "bit-of-lshr", PerK: true,
		Axiom: "(forall ((w (_ BitVec 64)) (k Int) (j Int)) (! (=> (and " + kRange + " " + jRange + ") (= (bitU (bvlshr w (shamt k)) j) (and (< (+ j k) 64) (bitU w (+ j k))))) :pattern ((bitU (bvlshr w (shamt k)) j))))",
		Proof: func(k int) string {
			return forallJ(func(j int) string {
				if j+k < 64 {
					return boolEq(bitD(fmt.Sprintf("(bvlshr w #x%016x)", k), j), bitD("w", j+k))
				}
				return "(not " + bitD(fmt.Sprintf("(bvlshr w #x%016x)", k), j) + ")"
			})
		}},
	{Name: "bit-of-low-mask", PerK: true,
		Axiom: "(forall ((k Int) (j Int)) (! (=> (and " + kRange + " " + jRange + ") (= (bitU (bvsub " + shl1("k") + " " + one + ") j) (< j k))) :pattern ((bitU (bvsub " + shl1("k") + " " + one + ") j))))",
		Proof: func(k int) string {
			return forallJ(func(j int) string {
				return boolEq(bitD("(bvsub "+kc(k)+" "+one+")", j), fmt.Sprintf("%v", j < k))
			})
		}},
	{Name: "tz-in-bits", Assumed: "definition of math/bits.TrailingZeros64: index of the lowest set bit, 64 for zero",
		Axiom: "(forall ((w (_ BitVec 64))) (! (and (<= 0 (bvtz w)) (<= (bvtz w) 64) (= (= (bvtz w) 64) (= w " + zero + ")) (=> (not (= w " + zero + ")) (and (bitU w (bvtz w)) (forall ((j Int)) (! (=> (and (<= 0 j) (< j (bvtz w))) (not (bitU w j))) :pattern ((bitU w j))))))) :pattern ((bvtz w))))",
		Proof: func(k int) string {
			// for every w whose lowest set bit is k (definition of tz = k): bit k set and all lower bits clear - tautological over the definition; checked: lowest-set-bit characterisation is consistent
			low := forallJ(func(j int) string {
				if j < k {
					return "(not " + bitD("w", j) + ")"
				}
				return "true"
			})
			return "(=> (and " + bitD("w", k) + " " + low + ") (and (not (= w " + zero + ")) (= (bvand w (bvsub " + kc(k) + " " + one + ")) " + zero + ")))"
		}},
	{Name: "lz-in-bits", Assumed: "definition of math/bits.LeadingZeros64: 63 - index of the highest set bit, 64 for zero",
		Axiom: "(forall ((w (_ BitVec 64))) (! (and (<= 0 (bvlz w)) (<= (bvlz w) 64) (= (= (bvlz w) 64) (= w " + zero + ")) (=> (not (= w " + zero + ")) (and (bitU w (- 63 (bvlz w))) (forall ((j Int)) (! (=> (and (< (- 63 (bvlz w)) j) (< j 64)) (not (bitU w j))) :pattern ((bitU w j))))))) :pattern ((bvlz w))))",
		Proof: func(k int) string {
			hi := forallJ(func(j int) string {
				if j > k {
					return "(not " + bitD("w", j) + ")"
				}
				return "true"
			})
			return "(=> (and " + bitD("w", k) + " " + hi + ") (and (not (= w " + zero + ")) (= (bvlshr w #x" + fmt.Sprintf("%016x", k+1) + ") " + zero + ")))"
		}},
	{Name: "wcnt-basics", Assumed: "definition of the spec function wcnt(w,k) = number of one bits of w below position k (k <= 0: 0; k >= 64: popcnt)",
		Axiom: "(forall ((w (_ BitVec 64)) (k Int)) (! (and (=> (<= k 0) (= (wcnt w k) 0)) (=> (and (<= 0 k) (<= k 64)) (and (<= 0 (wcnt w k)) (<= (wcnt w k) k))) (=> (>= k 64) (= (wcnt w k) (popcnt w)))) :pattern ((wcnt w k))))",
		Proof: func(k int) string { return "true" }},
	{Name: "wcnt-step", PerK: true,
		Axiom: "(forall ((w (_ BitVec 64)) (k Int)) (! (=> " + kRange + " (= (wcnt w (+ k 1)) (+ (wcnt w k) (ite (bitU w k) 1 0)))) :pattern ((wcnt w (+ k 1))) :pattern ((wcnt w k) (bitU w k))))",
		Proof: func(k int) string {
			return "(= " + wcntD("w", k+1) + " (+ " + wcntD("w", k) + " (ite " + bitD("w", k) + " 1 0)))"
		}},
	{Name: "wcnt-popcnt-shl", PerK: true,
		Axiom: "(forall ((w (_ BitVec 64)) (k Int)) (! (=> (and (< 0 k) (< k 64)) (= (popcnt (bvshl w (shamt (- 64 k)))) (wcnt w k))) :pattern ((popcnt (bvshl w (shamt (- 64 k)))))))",
		Proof: func(k int) string {
			if k == 0 {
				return "true"
			}
			return "(= " + popD(fmt.Sprintf("(bvshl w #x%016x)", 64-k)) + " " + wcntD("w", k) + ")"
		}},
	{Name: "popcnt-shl-any", PerK: true,
		Axiom: "(forall ((w (_ BitVec 64)) (k Int)) (! (=> " + kRange + " (= (popcnt (bvshl w (shamt k))) (wcnt w (- 64 k)))) :pattern ((popcnt (bvshl w (shamt k))))))",
		Proof: func(k int) string {
			return "(= " + popD(fmt.Sprintf("(bvshl w #x%016x)", k)) + " " + wcntD("w", 64-k) + ")"
		}},
	{Name: "popcnt-lshr-any", PerK: true,
		Axiom: "(forall ((w (_ BitVec 64)) (k Int)) (! (=> " + kRange + " (= (popcnt (bvlshr w (shamt k))) (- (popcnt w) (wcnt w k)))) :pattern ((popcnt (bvlshr w (shamt k))))))",
		Proof: func(k int) string {
			return "(= " + popD(fmt.Sprintf("(bvlshr w #x%016x)", k)) + " (- " + popD("w") + " " + wcntD("w", k) + "))"
		}},
	{Name: "popcnt-shl-or-lshr", PerK: true,
		Axiom: "(forall ((a (_ BitVec 64)) (b (_ BitVec 64)) (k Int) (m Int)) (! (=> (and (< 0 k) (< k 64) (= m (- 64 k))) (= (popcnt (bvor (bvshl a (shamt k)) (bvlshr b (shamt m)))) (- (+ (wcnt a m) (popcnt b)) (wcnt b m)))) :pattern ((popcnt (bvor (bvshl a (shamt k)) (bvlshr b (shamt m)))))))",
		Proof: func(k int) string {
			if k == 0 {
				return "true"
			}
			return "(= " + popD(fmt.Sprintf("(bvor (bvshl a #x%016x) (bvlshr b #x%016x))", k, 64-k)) + " (- (+ " + wcntD("a", 64-k) + " " + popD("b") + ") " + wcntD("b", 64-k) + "))"
		}},
	{Name: "wcnt-high-zero", PerK: true,
		Axiom: "(forall ((w (_ BitVec 64)) (k Int) (j Int)) (! (=> (and (<= 0 k) (<= k 64) (= (popcnt w) (wcnt w k)) (<= k j) (< j 64)) (not (bitU w j))) :pattern ((wcnt w k) (bitU w j))))",
		Proof: func(k int) string {
			return "(=> (= " + popD("w") + " " + wcntD("w", k) + ") " + forallJ(func(j int) string {
				if j >= k {
					return "(not " + bitD("w", j) + ")"
				}
				return "true"
			}) + ")"
		}},
	{Name: "wcnt-popcnt-high-mask", PerK: true,
		Axiom: "(forall ((w (_ BitVec 64)) (k Int)) (! (=> " + kRange + " (= (popcnt (bvand w (bvshl " + ones + " (shamt k)))) (- (popcnt w) (wcnt w k)))) :pattern ((popcnt (bvand w (bvshl " + ones + " (shamt k)))))))",
		Proof: func(k int) string {
			return "(= " + popD(fmt.Sprintf("(bvand w (bvshl %s #x%016x))", ones, k)) + " (- " + popD("w") + " " + wcntD("w", k) + "))"
		}},
	{Name: "wcnt-popcnt-low-mask", PerK: true,
		Axiom: "(forall ((w (_ BitVec 64)) (k Int)) (! (=> " + kRange + " (= (popcnt (bvand w (bvlshr " + ones + " (shamt k)))) (wcnt w (- 64 k)))) :pattern ((popcnt (bvand w (bvlshr " + ones + " (shamt k)))))))",
		Proof: func(k int) string {
			return "(= " + popD(fmt.Sprintf("(bvand w (bvlshr %s #x%016x))", ones, k)) + " " + wcntD("w", 64-k) + ")"
		}},
	{Name: "lowest-set-bit", PerK: true,
		Axiom: "(forall ((w (_ BitVec 64))) (! (=> (not (= w " + zero + ")) (= (bvand w (bvneg w)) " + shl1("(bvtz w)") + ")) :pattern ((bvand w (bvneg w)))))",
		Proof: func(k int) string {
			low := forallJ(func(j int) string {
				if j < k {
					return "(not " + bitD("w", j) + ")"
				}
				return "true"
			})
			return "(=> (and " + bitD("w", k) + " " + low + ") (= (bvand w (bvneg w)) " + kc(k) + "))"
		}},
	{Name: "popcnt-clear-lowest", PerK: true,
		Axiom: "(forall ((w (_ BitVec 64))) (! (=> (not (= w " + zero + ")) (= (popcnt (bvand w (bvsub w " + one + "))) (- (popcnt w) 1))) :pattern ((popcnt (bvand w (bvsub w " + one + "))))))",
		Cuts: func(k int) []string {
			low := forallJ(func(j int) string {
				if j < k {
					return "(not " + bitD("w", j) + ")"
				}
				return "true"
			})
			x := "(bvand w (bvsub w " + one + "))"
			var cuts []string
			for b := 0; b < 8; b++ {
				var sx, sw strings.Builder
				sx.WriteString("(+ 0")
				sw.WriteString("(+ 0")
				for j := 8 * b; j < 8*b+8; j++ {
					fmt.Fprintf(&sx, " (ite %s 1 0)", bitD(x, j))
					fmt.Fprintf(&sw, " (ite %s 1 0)", bitD("w", j))
				}
				sx.WriteString(")")
				sw.WriteString(")")
				d := 0
				if k/8 == b {
					d = 1
				}
				cuts = append(cuts, fmt.Sprintf("(=> (and %s %s) (= %s (- %s %d)))", bitD("w", k), low, sx.String(), sw.String(), d))
			}
			return cuts
		},
		Proof: func(k int) string {
			// case: k is the lowest set bit of w (some k is, since w != 0)
			low := forallJ(func(j int) string {
				if j < k {
					return "(not " + bitD("w", j) + ")"
				}
				return "true"
			})
			return "(=> (and " + bitD("w", k) + " " + low + ") (= " + popD("(bvand w (bvsub w "+one+"))") + " (- " + popD("w") + " 1)))"
		}},
	{Name: "popcnt-low-mask", PerK: true,
		Axiom: "(forall ((k Int)) (! (=> " + kRange + " (= (popcnt (bvsub " + shl1("k") + " " + one + ")) k)) :pattern ((popcnt (bvsub " + shl1("k") + " " + one + ")))))",
		Proof: func(k int) string {
			return fmt.Sprintf("(= %s %d)", popD("(bvsub "+kc(k)+" "+one+")"), k)
		}},
	{Name: "popcnt-not",
		Axiom: "(forall ((w (_ BitVec 64))) (! (= (popcnt (bvnot w)) (- 64 (popcnt w))) :pattern ((popcnt (bvnot w)))))",
		Cuts: func(k int) []string {
			// one cut per byte (an 8-bit enumeration each); the lemma is then linear arithmetic over the cuts
			var cuts []string
			for j := 0; j < 8; j++ {
				var b strings.Builder
				b.WriteString("(= (+")
				for i := 8 * j; i < 8*j+8; i++ {
					fmt.Fprintf(&b, " (ite %s 1 0) (ite %s 1 0)", bitD("w", i), bitD("(bvnot w)", i))
				}
				b.WriteString(") 8)")
				cuts = append(cuts, b.String())
			}
			return cuts
		},
		Proof: func(k int) string {
			return "(= " + popD("(bvnot w)") + " (- 64 " + popD("w") + "))"
		}},
	{Name: "wordeq-def",
		Axiom: "(forall ((a (_ BitVec 64)) (b (_ BitVec 64))) (! (= (wordeq a b) (= a b)) :pattern ((wordeq a b))))",
		Assumed: "definition of the spec builtin wordeq(a,b): a == b (exists to give the extensionality fact a trigger)"},
	{Name: "iadd-increment-idiom", PerK: true,
		Axiom: "(forall ((w (_ BitVec 64)) (k Int)) (! (=> " + kRange + " (= (bv2nat (bvlshr (bvxor w (bvor w " + shl1("k") + ")) (shamt k))) (ite (bitU w k) 0 1))) :pattern ((bvlshr (bvxor w (bvor w " + shl1("k") + ")) (shamt k)))))",
		Proof: func(k int) string {
			return fmt.Sprintf("(= (bvlshr (bvxor w (bvor w %s)) #x%016x) (ite %s %s %s))", kc(k), k, bitD("w", k), zero, one)
		}},
}

// needBitLib makes the library available to the current function's VCs.
func (e *Exec) needBitLib() {
	if e.declared["ax:bitlib"] {
		return
	}
	e.mark("ax:bitlib")
	e.needShamt()
	e.rawDecl("fun:bitU", "(declare-fun bitU ((_ BitVec 64) Int) Bool)")
	e.rawDecl("fun:wordeq", "(declare-fun wordeq ((_ BitVec 64) (_ BitVec 64)) Bool)")
	e.rawDecl("fun:wcnt", "(declare-fun wcnt ((_ BitVec 64) Int) Int)")
	for _, l := range bitLemmas {
		e.globalAxiom("(assert " + l.Axiom + ")")
	}
	for _, l := range bitLemmas {
		if l.Assumed != "" {
			e.note("axiom", l.Name+": "+l.Assumed)
		}
	}
	e.note("lemma-library", fmt.Sprintf("bit/popcount lemma library (%d facts; each re-proved per bit index against the definitions by `rvc lemmas`, except the definitional ones listed as axioms)", len(bitLemmas)))
}

// cmdLemmas re-proves the library.
func cmdLemmas(args []string) int {
	facts, instances, fails, slowest, msgs := proveLemmaLibrary(true)
	for _, m := range msgs {
		fmt.Println(m)
	}
	fmt.Printf("lemma library: %d facts, %d instances re-proved, %d failed, slowest %.2fs\n", facts, instances-fails, fails, slowest)
	if fails > 0 {
		return 1
	}
	if len(args) > 0 && args[0] == "--json" {
		fmt.Fprintf(os.Stdout, "{\"facts\": %d, \"instances\": %d}\n", facts, instances)
	}
	return 0
}

// proveLemmaLibrary re-proves every non-definitional fact of the bit library (one query per bit index and cut).
func proveLemmaLibrary(verbose bool) (facts, instances, fails int, slowest float64, msgs []string) {
	type job struct {
		lemma string
		k     int
		q     string
	}
	var jobs []job
	for _, l := range bitLemmas {
		if l.Assumed != "" {
			msgs = append(msgs, fmt.Sprintf("assumed (not proved): %s: %s", l.Name, l.Assumed))
			continue
		}
		ks := []int{0}
		if l.PerK {
			ks = nil
			for k := 0; k < 64; k++ {
				ks = append(ks, k)
			}
		}
		for _, k := range ks {
			hdr := "(declare-fun w () (_ BitVec 64))\n(declare-fun a () (_ BitVec 64))\n(declare-fun b () (_ BitVec 64))\n"
			goal := l.Proof(k)
			if l.Cuts != nil {
				cuts := l.Cuts(k)
				for _, c := range cuts {
					jobs = append(jobs, job{l.Name + "(cut)", k, hdr + "(assert (not " + c + "))\n"})
				}
				goal = "(=> (and " + strings.Join(cuts, " ") + ") " + goal + ")"
			}
			q := hdr + "(assert (not " + goal + "))\n"
			jobs = append(jobs, job{l.Name, k, q})
		}
	}
	var mu sync.Mutex
	ch := make(chan job)
	var wg sync.WaitGroup
	for i := 0; i < 16; i++ {
		wg.Add(1)
		go func() {
			defer wg.Done()
			for j := range ch {
				r := solve(j.q, 60, false)
				mu.Lock()
				if r.Status != "unsat" {
					fails++
					msgs = append(msgs, fmt.Sprintf("LEMMA NOT PROVED: %s k=%d: %s", j.lemma, j.k, r.Status))
				}
				if r.Time > slowest {
					slowest = r.Time
				}
				mu.Unlock()
			}
		}()
	}
	for _, j := range jobs {
		ch <- j
	}
	close(ch)
	wg.Wait()
	return len(bitLemmas), len(jobs), fails, slowest, msgs
}
