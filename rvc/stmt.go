package main

// Statement execution with state merging at joins; loops are cut at their
// invariants or unrolled (bounded stand-in) when the contract gives none.

import (
	"fmt"
	"go/ast"
	"go/token"
	"go/types"
	"regexp"
	"strconv"
	"strings"
)

func (e *Exec) execBlock(st *State, stmts []ast.Stmt) *State {
	for _, s := range stmts {
		if st.dead {
			break
		}
		st = e.execStmt(st, s, "")
	}
	return st
}

func (e *Exec) pushFrame(label string, isLoop bool) *ctlFrame {
	f := &ctlFrame{label: label, isLoop: isLoop}
	e.frames = append(e.frames, f)
	return f
}
func (e *Exec) popFrame() { e.frames = e.frames[:len(e.frames)-1] }

func (e *Exec) findFrame(label string, wantLoop bool) *ctlFrame {
	for i := len(e.frames) - 1; i >= 0; i-- {
		f := e.frames[i]
		if f.isInline {
			break
		}
		if label != "" {
			if f.label == label {
				return f
			}
			continue
		}
		if wantLoop && !f.isLoop {
			continue
		}
		return f
	}
	return nil
}

func deadState() *State {
	return &State{vars: map[types.Object]Term{}, heap: map[string]Term{}, pc: False, dead: true}
}

func (e *Exec) execStmt(st *State, s ast.Stmt, label string) *State {
	if st.dead {
		return st
	}
	e.curPos = s.Pos()
	e.syncCtx(st.pc.S)
	if ct := e.curContract(); ct != nil && len(ct.Hints) > 0 && e.depth == 0 {
		e.applyHints(st, s, ct, false, nil)
		out := e.execStmt1(st, s, label)
		if !out.dead {
			e.applyHints(out, s, ct, true, nil)
		}
		return out
	}
	return e.execStmt1(st, s, label)
}

// applyHints performs the ghost lemma applications anchored at statement s.
func (e *Exec) applyHints(st *State, s ast.Stmt, ct *Contract, after bool, extra map[string]TV) {
	var src string
	for _, h := range ct.Hints {
		if h.After != after {
			continue
		}
		if src == "" {
			src = e.srcFull(s)
		}
		if !strings.HasPrefix(src, h.Anchor) {
			continue
		}
		key := e.pkgShort + "." + h.Lemma
		lct := e.prog.Contracts[key]
		lfi := e.prog.Funcs[key]
		if lct == nil || lfi == nil || !lct.IsLemma {
			e.specErrors = append(e.specErrors, fmt.Sprintf("hint: %s is not a lemma procedure", h.Lemma))
			continue
		}
		func() {
			defer e.catchSpec("hint "+h.Lemma, s.Pos())
			saved := e.specPos
			if after {
				e.specPos = s.End()
			} else {
				e.specPos = s.Pos()
			}
			defer func() { e.specPos = saved }()
			env := e.localEnv(st)
			for k, v := range extra {
				env.vars[k] = v
			}
			var args []TV
			for _, a := range h.Args {
				args = append(args, e.tr(a.E, env))
			}
			e.usedLemmas = append(e.usedLemmas, key)
			e.applyContract(st, nil, lfi, lct, nil, args)
		}()
	}
}

func (e *Exec) srcFull(n ast.Node) string {
	p0 := e.prog.Fset.Position(n.Pos())
	p1 := e.prog.Fset.Position(n.End())
	data, ok := e.prog.srcCache(p0.Filename)
	if !ok || p1.Offset > len(data) || p0.Offset > p1.Offset {
		return ""
	}
	return strings.Join(strings.Fields(string(data[p0.Offset:p1.Offset])), " ")
}

func (e *Exec) execStmt1(st *State, s ast.Stmt, label string) *State {
	switch s := s.(type) {
	case *ast.BlockStmt:
		return e.execBlock(st, s.List)
	case *ast.ExprStmt:
		if call, ok := s.X.(*ast.CallExpr); ok {
			e.evalCall(st, call)
			if e.isPanicCall(call) {
				st.dead = true
			}
			return st
		}
		e.eval(st, s.X)
		return st
	case *ast.AssignStmt:
		e.execAssign(st, s)
		return st
	case *ast.IncDecStmt:
		t := e.typeOf(s.X)
		v := e.eval(st, s.X)
		var nv Term
		if v.Sort == SBV64 {
			op := "bvadd"
			if s.Tok == token.DEC {
				op = "bvsub"
			}
			nv = mk(SBV64, op, v, BVLit(1))
		} else if s.Tok == token.INC {
			nv = e.wrapAddSub(Add(v, IntLit(1)), t, true)
		} else {
			nv = e.wrapAddSub(Sub(v, IntLit(1)), t, false)
		}
		e.assignTo(st, s.X, nv, t)
		return st
	case *ast.DeclStmt:
		gd, ok := s.Decl.(*ast.GenDecl)
		if !ok || gd.Tok != token.VAR {
			return st
		}
		for _, sp := range gd.Specs {
			vs := sp.(*ast.ValueSpec)
			if len(vs.Values) == 1 && len(vs.Names) > 1 {
				rs := e.evalMulti(st, vs.Values[0], len(vs.Names))
				for i, n := range vs.Names {
					e.declareLocal(st, n, rs[i])
				}
				continue
			}
			for i, n := range vs.Names {
				obj := e.info.Defs[n]
				if obj == nil {
					continue
				}
				var v Term
				if i < len(vs.Values) {
					v = e.evalAs(st, vs.Values[i], obj.Type())
				} else {
					v = e.zero(obj.Type())
				}
				v = e.toSort(v, e.varSort(obj))
				e.declareLocal(st, n, v)
			}
		}
		return st
	case *ast.IfStmt:
		if s.Init != nil {
			st = e.execStmt(st, s.Init, "")
		}
		c := e.eval(st, s.Cond)
		c = e.bindLocal("c", c)
		thenS := st.clone()
		e.addPC(thenS, c)
		elseS := st
		e.addPC(elseS, Not(c))
		thenS = e.execBlock(thenS, s.Body.List)
		if s.Else != nil {
			elseS = e.execStmt(elseS, s.Else, "")
		}
		return e.merge([]*State{thenS, elseS})
	case *ast.ForStmt:
		return e.execFor(st, s, label)
	case *ast.RangeStmt:
		return e.execRange(st, s, label)
	case *ast.LabeledStmt:
		return e.execStmt(st, s.Stmt, s.Label.Name)
	case *ast.BranchStmt:
		lbl := ""
		if s.Label != nil {
			lbl = s.Label.Name
		}
		switch s.Tok {
		case token.BREAK:
			f := e.findFrame(lbl, false)
			if f == nil {
				e.unsupportedf(s.Pos(), "break without target")
				st.dead = true
				return st
			}
			f.breaks = append(f.breaks, st.clone())
			st.dead = true
			return st
		case token.CONTINUE:
			f := e.findFrame(lbl, true)
			if f == nil {
				e.unsupportedf(s.Pos(), "continue without target")
				st.dead = true
				return st
			}
			f.conts = append(f.conts, st.clone())
			st.dead = true
			return st
		}
		e.unsupportedf(s.Pos(), "branch statement %s", s.Tok)
		st.dead = true
		return st
	case *ast.ReturnStmt:
		e.execReturn(st, s)
		st.dead = true
		return st
	case *ast.SwitchStmt:
		return e.execSwitch(st, s, label)
	case *ast.TypeSwitchStmt:
		return e.execTypeSwitch(st, s, label)
	case *ast.EmptyStmt:
		return st
	case *ast.DeferStmt:
		e.unsupportedf(s.Pos(), "defer")
		return st
	case *ast.GoStmt:
		e.unsupportedf(s.Pos(), "go statement")
		return st
	case *ast.SendStmt, *ast.SelectStmt:
		e.unsupportedf(s.Pos(), "channel operation")
		return st
	}
	e.unsupportedf(s.Pos(), "statement %T", s)
	return st
}

func (e *Exec) isPanicCall(call *ast.CallExpr) bool {
	if id, ok := call.Fun.(*ast.Ident); ok && id.Name == "panic" {
		if _, isB := e.info.ObjectOf(id).(*types.Builtin); isB {
			return true
		}
	}
	return false
}

func (e *Exec) declareLocal(st *State, n *ast.Ident, v Term) {
	if n.Name == "_" {
		return
	}
	obj := e.info.Defs[n]
	if obj == nil {
		obj = e.info.Uses[n]
	}
	if obj == nil {
		return
	}
	e.setVar(st, obj, v)
}

func (e *Exec) setVar(st *State, obj types.Object, v Term) {
	if vo, ok := obj.(*types.Var); ok && e.boxed[vo] {
		ref, have := st.vars[obj]
		if !have {
			ref = e.allocRef(st, "box_"+obj.Name())
			st.vars[obj] = ref
		}
		e.noFrame = true
		e.storeObject(st, obj.Type(), ref, v)
		e.noFrame = false
		return
	}
	st.vars[obj] = e.bind(obj.Name(), v)
}

// evalMulti evaluates an expression producing n values (call, type assertion, map index).
func (e *Exec) evalMulti(st *State, x ast.Expr, n int) []Term {
	switch y := x.(type) {
	case *ast.ParenExpr:
		return e.evalMulti(st, y.X, n)
	case *ast.CallExpr:
		rs := e.evalCall(st, y)
		for len(rs) < n {
			rs = append(rs, IntLit(0))
		}
		return rs
	case *ast.TypeAssertExpr:
		v := e.eval(st, y.X)
		to := e.typeOf(y.Type)
		if isInterface(to) {
			// x.(I) with ok: true exactly when the dynamic type is one of the module's implementations of I (types of
			// other packages that would implement I are not considered: a module-internal interface has none)
			impls := e.implementations(to)
			if len(impls) == 0 || len(impls) > 6 {
				e.unsupportedf(x.Pos(), "interface-to-interface assertion with ok")
				return []Term{v, e.fresh("ok", SBool)}
			}
			var alts []Term
			for _, it := range impls {
				alts = append(alts, Eq(CKind(v), IntLit(int64(e.kindCode(it)))))
			}
			ok := e.bindLocal("tok", Or(alts...))
			e.note("interface", fmt.Sprintf("x.(%s) succeeds exactly for the implementations defined in this module", to))
			return []Term{Ite(ok, v, NilCont), ok}
		}
		ok := Eq(CKind(v), IntLit(int64(e.kindCode(to))))
		return []Term{Ite(ok, CRef(v), IntLit(0)), ok}
	}
	e.unsupportedf(x.Pos(), "multi-value expression %T", x)
	out := make([]Term, n)
	for i := range out {
		out[i] = IntLit(0)
	}
	return out
}

func (e *Exec) execAssign(st *State, s *ast.AssignStmt) {
	if s.Tok != token.ASSIGN && s.Tok != token.DEFINE {
		// op-assign
		op := map[token.Token]token.Token{token.ADD_ASSIGN: token.ADD, token.SUB_ASSIGN: token.SUB, token.MUL_ASSIGN: token.MUL,
			token.QUO_ASSIGN: token.QUO, token.REM_ASSIGN: token.REM, token.AND_ASSIGN: token.AND, token.OR_ASSIGN: token.OR,
			token.XOR_ASSIGN: token.XOR, token.SHL_ASSIGN: token.SHL, token.SHR_ASSIGN: token.SHR, token.AND_NOT_ASSIGN: token.AND_NOT}[s.Tok]
		t := e.typeOf(s.Lhs[0])
		l := e.eval(st, s.Lhs[0])
		r := e.eval(st, s.Rhs[0])
		if l.Sort == SBV64 && r.Sort == SInt && op != token.SHL && op != token.SHR {
			r = e.toSort(r, SBV64)
		}
		if l.Sort == SInt && r.Sort == SBV64 && (op == token.ADD || op == token.SUB) {
			r = e.toSort(r, SInt) // numeric (`ints`) accumulator: the addend is read as a number
		}
		v := e.arith(st, op, l, r, t, e.typeOf(s.Rhs[0]), s)
		e.assignTo(st, s.Lhs[0], v, t)
		return
	}
	var vals []Term
	var vts []types.Type
	if len(s.Rhs) == 1 && len(s.Lhs) > 1 {
		vals = e.evalMulti(st, s.Rhs[0], len(s.Lhs))
		if tup, ok := e.typeOf(s.Rhs[0]).(*types.Tuple); ok {
			for i := 0; i < tup.Len(); i++ {
				vts = append(vts, tup.At(i).Type())
			}
		}
		for len(vts) < len(vals) {
			vts = append(vts, nil)
		}
	} else {
		for _, r := range s.Rhs {
			vals = append(vals, e.eval(st, r))
			vts = append(vts, e.typeOf(r))
		}
	}
	for i, l := range s.Lhs {
		if s.Tok == token.DEFINE {
			if id, ok := l.(*ast.Ident); ok {
				if obj := e.info.Defs[id]; obj != nil {
					v := vals[i]
					if vts[i] != nil {
						v = e.coerce(st, v, vts[i], obj.Type())
					}
					v = e.toSort(v, e.varSort(obj))
					e.setVar(st, obj, v)
					continue
				}
			}
		}
		lt := e.typeOf(l)
		v := vals[i]
		if vts[i] != nil {
			v = e.coerce(st, v, vts[i], lt)
		}
		e.assignTo(st, l, v, lt)
	}
}

// assignTo stores v (of static type t) into the location denoted by l.
func (e *Exec) assignTo(st *State, l ast.Expr, v Term, t types.Type) {
	switch x := l.(type) {
	case *ast.ParenExpr:
		e.assignTo(st, x.X, v, t)
	case *ast.Ident:
		if x.Name == "_" {
			return
		}
		obj := e.info.ObjectOf(x)
		if obj == nil {
			return
		}
		v = e.toSort(v, e.varSort(obj))
		if vo, ok := obj.(*types.Var); ok && vo.Pkg() != nil && vo.Parent() == vo.Pkg().Scope() {
			e.unsupportedf(x.Pos(), "assignment to package variable %s", x.Name)
			return
		}
		e.setVar(st, obj, v)
	case *ast.IndexExpr:
		bt := types.Unalias(e.typeOf(x.X)).Underlying()
		switch u := bt.(type) {
		case *types.Slice:
			s := e.eval(st, x.X)
			i := e.evalInt(st, x.Index)
			e.oblige(st, "idx", "", And(Le(IntLit(0), i), Lt(i, SLen(s))), "index in range (store): "+e.src(x), x.Pos())
			if isObjElem(u.Elem()) {
				e.curPos = x.Pos()
				e.storeElem(st, s, u.Elem(), i, v) // field stores, each with its own frame check
				return
			}
			e.checkFrame(st, elemKey(u.Elem()), SRef(s), ElemIdx(s, i), true, x.Pos())
			e.storeElem(st, s, u.Elem(), i, e.toSort(v, e.elemSort(u.Elem())))
		case *types.Array:
			a := e.eval(st, x.X)
			i := e.evalInt(st, x.Index)
			e.oblige(st, "idx", "", And(Le(IntLit(0), i), Lt(i, IntLit(u.Len()))), "array index in range (store)", x.Pos())
			e.assignTo(st, x.X, Store(a, i, e.toSort(v, e.elemSort(u.Elem()))), e.typeOf(x.X))
		default:
			e.unsupportedf(x.Pos(), "store into %s", bt)
		}
	case *ast.SelectorExpr:
		sel, ok := e.info.Selections[x]
		if !ok || sel.Kind() != types.FieldVal {
			e.unsupportedf(x.Pos(), "assignment to %s", e.src(x))
			return
		}
		base, baseT := e.evalBaseRef(st, x.X)
		if base.S != "" {
			ref, bt := base, baseT
			idx := sel.Index()
			for k, i := range idx {
				s := types.Unalias(bt).Underlying().(*types.Struct)
				f := s.Field(i)
				if k == len(idx)-1 {
					e.curPos = x.Pos()
					e.storeFieldDeep(st, bt, f, ref, e.toSort(v, e.sortOf(f.Type())))
					return
				}
				if p, isPtr := f.Type().Underlying().(*types.Pointer); isPtr {
					ref = e.loadField(st, bt, f, ref)
					bt = p.Elem()
				} else if _, isStruct := types.Unalias(f.Type()).Underlying().(*types.Struct); isStruct && !isValueStruct(f.Type()) {
					ref = e.subRef(bt, f, ref)
					bt = f.Type()
				} else {
					e.unsupportedf(x.Pos(), "store through value-struct path")
					return
				}
			}
			return
		}
		// field of a struct value held in a local: rebuild the value
		sv := e.eval(st, x.X)
		svt := e.typeOf(x.X)
		if len(sel.Index()) != 1 {
			e.unsupportedf(x.Pos(), "nested value-struct field store")
			return
		}
		su := types.Unalias(svt).Underlying().(*types.Struct)
		fs := make([]Term, su.NumFields())
		for i := range fs {
			fs[i] = e.structField(svt, sv, i)
		}
		fs[sel.Index()[0]] = v
		e.assignTo(st, x.X, e.mkStruct(svt, fs), svt)
	case *ast.StarExpr:
		p := e.eval(st, x.X)
		e.oblige(st, "nil", "", Not(Eq(p, IntLit(0))), "nil dereference (store)", x.Pos())
		e.curPos = x.Pos()
		e.storeObject(st, deref(e.typeOf(x.X)), p, v)
	default:
		e.unsupportedf(l.Pos(), "assignment target %T", l)
	}
}

// checkFrame: a store into (key, ref[, idx]) must be allowed by the function's own
// modifies clause, or hit memory allocated during this call.
func (e *Exec) checkFrame(st *State, key string, ref Term, idx Term, isElem bool, p token.Pos) {
	if e.dry > 0 {
		e.dryStores = append(e.dryStores, dryStore{key: key, ref: ref})
	}
	if e.noFrame || e.contract == nil || e.depth < 0 {
		return
	}
	// a location of the nil object does not exist (a real store through nil is a nil# obligation of its own): modifies
	// entries such as x.iter.(*T).f with x.iter == nil denote nothing
	allowed := []Term{Ge(ref, e.alloc0), Eq(ref, IntLit(0))}
	if !isElem && e.declared["eref"] {
		// a field of an element of a slice of structs whose backing array was allocated by this call
		allowed = append(allowed, And(Lt(ref, IntLit(0)), Ge(mk(SInt, "einv1", ref), e.alloc0)))
	}
	for _, m := range e.modRefs {
		if m.key != key {
			continue
		}
		if m.any {
			allowed = append(allowed, True)
			continue
		}
		if m.earr.S != "" {
			if !isElem {
				allowed = append(allowed, And(m.when(), isErefIn(ref, m.earr, m.lo, m.hi)))
			}
			continue
		}
		if isElem && m.isElem {
			allowed = append(allowed, And(m.when(), Eq(ref, m.ref), Le(m.lo, idx), Lt(idx, m.hi)))
		} else if !isElem && !m.isElem {
			allowed = append(allowed, And(m.when(), Eq(ref, m.ref)))
		}
	}
	e.oblige(st, "frame", "", Or(allowed...), "store allowed by modifies: "+key, p)
}

func (e *Exec) execReturn(st *State, s *ast.ReturnStmt) {
	resObjs := e.resStack[len(e.resStack)-1]
	if len(s.Results) > 0 {
		var vals []Term
		if len(s.Results) == 1 && len(resObjs) > 1 {
			vals = e.evalMulti(st, s.Results[0], len(resObjs))
			if tup, ok := e.typeOf(s.Results[0]).(*types.Tuple); ok {
				for i := range vals {
					vals[i] = e.coerce(st, vals[i], tup.At(i).Type(), resObjs[i].Type())
				}
			}
		} else {
			for i, r := range s.Results {
				vals = append(vals, e.evalAs(st, r, resObjs[i].Type()))
			}
		}
		for i, o := range resObjs {
			st.vars[o] = e.bind("res", e.toSort(vals[i], e.resultSort(e.curContract(), i, o.Type())))
		}
	}
	// `after "return ..." apply lemma(...)`: ghost step between the evaluation of the results and the postconditions
	if ct := e.curContract(); ct != nil && len(ct.Hints) > 0 && e.depth == 0 {
		extra := map[string]TV{}
		for i, o := range resObjs {
			tv := TV{st.vars[o], o.Type()}
			extra[fmt.Sprintf("res%d", i)] = tv
			if i == 0 {
				extra["res"] = tv
			}
		}
		e.applyHints(st, s, ct, true, extra)
	}
	// find the innermost inline frame, if any
	for i := len(e.frames) - 1; i >= 0; i-- {
		if e.frames[i].isInline {
			e.frames[i].rets = append(e.frames[i].rets, st.clone())
			return
		}
	}
	e.checkPosts(st, s.Pos())
}

func (e *Exec) execSwitch(st *State, s *ast.SwitchStmt, label string) *State {
	if s.Init != nil {
		st = e.execStmt(st, s.Init, "")
	}
	var tag Term
	var tagT types.Type
	if s.Tag != nil {
		tag = e.eval(st, s.Tag)
		tagT = e.typeOf(s.Tag)
	}
	f := e.pushFrame(label, false)
	var outs []*State
	rest := st
	var deflt *ast.CaseClause
	for _, cc := range s.Body.List {
		c := cc.(*ast.CaseClause)
		if c.List == nil {
			deflt = c
			continue
		}
		var conds []Term
		e.syncCtx(rest.pc.S) // the case conditions are evaluated on the fall-through path, not inside the previous case body
		for _, x := range c.List {
			if s.Tag != nil {
				v := e.eval(rest, x)
				a, b := e.unify(rest, tag, tagT, v, e.typeOf(x))
				conds = append(conds, Eq(a, b))
			} else {
				conds = append(conds, e.eval(rest, x))
			}
		}
		cond := e.bindLocal("sw", Or(conds...))
		taken := rest.clone()
		e.addPC(taken, cond)
		e.addPC(rest, Not(cond))
		if hasFallthrough(c.Body) {
			e.unsupportedf(c.Pos(), "fallthrough")
		}
		outs = append(outs, e.execBlock(taken, c.Body))
	}
	if deflt != nil {
		outs = append(outs, e.execBlock(rest, deflt.Body))
	} else {
		outs = append(outs, rest)
	}
	e.popFrame()
	outs = append(outs, f.breaks...)
	return e.merge(outs)
}

func hasFallthrough(body []ast.Stmt) bool {
	if len(body) == 0 {
		return false
	}
	b, ok := body[len(body)-1].(*ast.BranchStmt)
	return ok && b.Tok == token.FALLTHROUGH
}

func (e *Exec) execTypeSwitch(st *State, s *ast.TypeSwitchStmt, label string) *State {
	if s.Init != nil {
		st = e.execStmt(st, s.Init, "")
	}
	var subject ast.Expr
	switch a := s.Assign.(type) {
	case *ast.AssignStmt:
		subject = a.Rhs[0].(*ast.TypeAssertExpr).X
	case *ast.ExprStmt:
		subject = a.X.(*ast.TypeAssertExpr).X
	}
	v := e.eval(st, subject)
	f := e.pushFrame(label, false)
	var outs []*State
	rest := st
	var deflt *ast.CaseClause
	for _, cc := range s.Body.List {
		c := cc.(*ast.CaseClause)
		if c.List == nil {
			deflt = c
			continue
		}
		var conds []Term
		var single types.Type
		e.syncCtx(rest.pc.S)
		for _, x := range c.List {
			tt := e.typeOf(x)
			if id, ok := x.(*ast.Ident); ok && id.Name == "nil" {
				conds = append(conds, Eq(CKind(v), IntLit(0)))
				continue
			}
			if isInterface(tt) {
				e.unsupportedf(x.Pos(), "type switch on interface type %s", tt)
				conds = append(conds, e.fresh("tsw", SBool))
				continue
			}
			conds = append(conds, Eq(CKind(v), IntLit(int64(e.kindCode(tt)))))
			single = tt
		}
		cond := e.bindLocal("tsw", Or(conds...))
		taken := rest.clone()
		e.addPC(taken, cond)
		e.addPC(rest, Not(cond))
		if len(c.List) == 1 && single != nil {
			taken.learnKind(v, e.kindCode(single))
		}
		if obj := e.info.Implicits[c]; obj != nil {
			if len(c.List) == 1 && single != nil {
				taken.vars[obj] = CRef(v)
			} else {
				taken.vars[obj] = v
			}
		}
		outs = append(outs, e.execBlock(taken, c.Body))
	}
	if deflt != nil {
		if obj := e.info.Implicits[deflt]; obj != nil {
			rest.vars[obj] = v
		}
		outs = append(outs, e.execBlock(rest, deflt.Body))
	} else {
		outs = append(outs, rest)
	}
	e.popFrame()
	outs = append(outs, f.breaks...)
	return e.merge(outs)
}

// ---------------------------------------------------------------------------
// loops

type dryStore struct {
	key    string
	ref    Term
	coarse bool // the written cells are not "row ref of the map" (fields of element objects of an array): no frame
}

type snapshot struct {
	ndecl, nassump, nobl, nunsup int
	counters                     map[string]int
	declaredLog                  int
	bounded                      int
	nunrolled                    int
	ctxPC                        string
}

func (e *Exec) snap() snapshot {
	c := map[string]int{}
	for k, v := range e.counters {
		c[k] = v
	}
	e.syncCtx(e.ctxPC)
	return snapshot{len(e.decls), len(e.assumps), len(e.obls), len(e.unsupported), c, len(e.declLog), e.boundedK, len(e.unrolled), e.ctxPC}
}

func (e *Exec) rollback(s snapshot) {
	e.decls = e.decls[:s.ndecl]
	e.assumps = e.assumps[:s.nassump]
	for i := range e.atags {
		if i >= s.nassump {
			delete(e.atags, i)
		}
	}
	for i := range e.actx {
		if i >= s.nassump {
			delete(e.actx, i)
		}
	}
	e.ctxMark = s.nassump
	e.ctxPC = s.ctxPC
	for len(e.viewFacts) > 0 && e.viewFacts[len(e.viewFacts)-1].at >= s.nassump {
		e.viewFacts = e.viewFacts[:len(e.viewFacts)-1]
	}
	e.obls = e.obls[:s.nobl]
	e.unsupported = e.unsupported[:s.nunsup]
	e.counters = s.counters
	for _, k := range e.declLog[s.declaredLog:] {
		delete(e.declared, k)
	}
	e.declLog = e.declLog[:s.declaredLog]
	e.boundedK = s.bounded
	e.unrolled = e.unrolled[:s.nunrolled]
}

// assignedVars collects the variables (declared outside n) assigned anywhere in the nodes.
func (e *Exec) assignedVars(nodes ...ast.Node) []*types.Var {
	seen := map[*types.Var]bool{}
	var out []*types.Var
	var lo, hi token.Pos
	for _, n := range nodes {
		if n == nil {
			continue
		}
		if lo == 0 || n.Pos() < lo {
			lo = n.Pos()
		}
		if n.End() > hi {
			hi = n.End()
		}
	}
	add := func(x ast.Expr) {
		for {
			switch y := x.(type) {
			case *ast.ParenExpr:
				x = y.X
				continue
			case *ast.SelectorExpr:
				// field of a value-struct local
				if _, isSel := e.info.Selections[y]; isSel {
					if _, isPtr := types.Unalias(e.typeOf(y.X)).Underlying().(*types.Pointer); !isPtr {
						x = y.X
						continue
					}
				}
			case *ast.IndexExpr:
				if _, isArr := types.Unalias(e.typeOf(y.X)).Underlying().(*types.Array); isArr {
					x = y.X
					continue
				}
			}
			break
		}
		id, ok := x.(*ast.Ident)
		if !ok {
			return
		}
		v, ok := e.info.ObjectOf(id).(*types.Var)
		if !ok || seen[v] {
			return
		}
		if v.Pos() >= lo && v.Pos() < hi {
			return // declared inside the loop
		}
		seen[v] = true
		out = append(out, v)
	}
	for _, n := range nodes {
		if n == nil {
			continue
		}
		ast.Inspect(n, func(m ast.Node) bool {
			switch s := m.(type) {
			case *ast.AssignStmt:
				for _, l := range s.Lhs {
					add(l)
				}
			case *ast.IncDecStmt:
				add(s.X)
			case *ast.RangeStmt:
				if s.Tok == token.ASSIGN {
					if s.Key != nil {
						add(s.Key)
					}
					if s.Value != nil {
						add(s.Value)
					}
				}
			case *ast.FuncLit:
				return false
			}
			return true
		})
	}
	return out
}

var symRe = regexp.MustCompile(`[A-Za-z_][A-Za-z0-9_.]*![0-9]+`)

// stable reports whether a term only mentions symbols created before marker
// (following definitions of named sub-terms).
func (e *Exec) stable(t string, marker int, badKeys map[string]bool, seen map[string]bool) bool {
	for _, sym := range symRe.FindAllString(t, -1) {
		if seen[sym] {
			continue
		}
		seen[sym] = true
		i := len(sym) - 1
		for sym[i] != '!' {
			i--
		}
		n, _ := strconv.Atoi(sym[i+1:])
		base := sym[:i]
		if badKeys[base] {
			return false
		}
		if n <= marker {
			continue
		}
		if d, ok := e.defs[sym]; ok {
			if !e.stable(d, marker, badKeys, seen) {
				return false
			}
			continue
		}
		return false
	}
	return true
}

// loopHavoc computes and applies the havoc of a loop: assigned variables get fresh
// values; heap maps written in the body get a fresh version framed to the stable
// references that were written.
func (e *Exec) loopHavoc(st *State, spec *LoopSpec, vars []*types.Var, run func(s *State)) {
	// dry run to discover heap effects
	marker := e.nfresh
	sn := e.snap()
	dry := st.clone()
	for _, v := range vars {
		if e.boxed[v] {
			continue
		}
		if _, ok := dry.vars[v]; ok {
			dry.vars[v] = e.fresh(v.Name(), e.varSort(v))
		}
	}
	e.dry++
	savedStores := e.dryStores
	e.dryStores = nil
	savedFrames := e.frames
	type flen struct{ b, c, r int }
	var lens []flen
	for _, f := range savedFrames {
		lens = append(lens, flen{len(f.breaks), len(f.conts), len(f.rets)})
	}
	e.frames = append(e.frames, &ctlFrame{isLoop: true, label: "\x00dry"})
	func() {
		defer func() {
			if r := recover(); r != nil {
				if _, ok := r.(abortExec); !ok {
					panic(r)
				}
			}
		}()
		run(dry)
	}()
	e.frames = savedFrames
	for i, f := range savedFrames {
		// states that escaped to enclosing frames during the dry run are discarded with it
		f.breaks, f.conts, f.rets = f.breaks[:lens[i].b], f.conts[:lens[i].c], f.rets[:lens[i].r]
	}
	stores := e.dryStores
	e.dryStores = savedStores
	e.dry--
	allocChanged := true
	// evaluate stability before rolling definitions back
	modKeys := map[string]bool{}
	for _, s := range stores {
		modKeys[s.key] = true
	}
	type kr struct {
		refs   []Term
		coarse bool
	}
	per := map[string]*kr{}
	for _, s := range stores {
		k := per[s.key]
		if k == nil {
			k = &kr{}
			per[s.key] = k
		}
		if s.coarse {
			k.coarse = true
			continue
		}
		if e.freshRefs[s.ref.S] && symIndex(s.ref.S) > marker {
			continue // allocated inside the loop body (during the dry run): covered by the allocation frontier
		}
		if e.stable(s.ref.S, marker, modKeys, map[string]bool{}) {
			dup := false
			for _, r := range k.refs {
				if r.S == s.ref.S {
					dup = true
				}
			}
			if !dup {
				k.refs = append(k.refs, e.expandDefs(s.ref, marker))
			}
		} else {
			k.coarse = true
		}
	}
	e.rollback(sn)
	// real havoc
	for _, v := range vars {
		if e.boxed[v] {
			continue
		}
		if _, ok := st.vars[v]; ok {
			nv := e.fresh(v.Name(), e.varSort(v))
			e.assumeGlobal(e.rangeFact(nv, v.Type()))
			st.vars[v] = nv
		}
	}
	allocEntry := e.allocGet(st)
	if allocChanged {
		na := e.fresh("alloc", SInt)
		e.assumeGlobal(Ge(na, allocEntry))
		st.heap["alloc"] = na
	}
	for _, v := range vars {
		if tv, ok := st.vars[v]; ok && !e.boxed[v] {
			e.assume(st, e.allocFact(tv, v.Type(), e.allocGet(st)))
		}
	}
	var keys []string
	for k := range per {
		keys = append(keys, k)
	}
	sortStrings(keys)
	for _, key := range keys {
		k := per[key]
		hm, ok := e.heapMetas[key]
		if !ok {
			continue
		}
		if strings.HasPrefix(key, "C_") {
			e.cellInit(key, hm.vtype)
		} else {
			e.heapInit(key, hm.vtype) // the dry run's declaration was rolled back
		}
		old := e.heapGet(st, key)
		nh := e.heapHavoc(st, key)
		if k.coarse {
			e.note("loop-frame", fmt.Sprintf("%s: loop writes %s through a reference that varies with the loop: whole map havocked", e.fn.Key, key))
			// still: nothing below the entry frontier changes its *identity*; no frame available
			continue
		}
		m := e.heapMetas[key]
		r := Term{"r!f", SInt}
		var conds []Term
		conds = append(conds, Lt(r, allocEntry))
		for _, x := range k.refs {
			conds = append(conds, Not(Eq(r, x)))
		}
		body := Implies(And(conds...), Eq(Select(nh, r, innerSort(m)), Select(old, r, innerSort(m))))
		e.assumps = append(e.assumps, fmt.Sprintf("(assert (forall ((r!f Int)) (! %s :pattern (%s))))", body.S, Select(nh, r, innerSort(m)).S))
	}
}

// symIndex: the creation index n of a generated symbol name!n (-1 if the text is not such a symbol).
func symIndex(sym string) int {
	i := strings.LastIndexByte(sym, '!')
	if i < 0 {
		return -1
	}
	n, err := strconv.Atoi(sym[i+1:])
	if err != nil {
		return -1
	}
	return n
}

func innerSort(m heapMeta) Sort {
	// element of the outer array
	s := string(m.sort)
	// "(Array Int X)" -> X
	return Sort(s[len("(Array Int ") : len(s)-1])
}

// expandDefs replaces named sub-terms created after marker by their definitions,
// so that the term stays meaningful after the dry run is rolled back.
func (e *Exec) expandDefs(t Term, marker int) Term {
	s := t.S
	for iter := 0; iter < 50; iter++ {
		changed := false
		s = symRe.ReplaceAllStringFunc(s, func(sym string) string {
			i := len(sym) - 1
			for sym[i] != '!' {
				i--
			}
			n, _ := strconv.Atoi(sym[i+1:])
			if n > marker {
				if d, ok := e.defs[sym]; ok {
					changed = true
					return d
				}
			}
			return sym
		})
		if !changed {
			break
		}
	}
	return Term{s, t.Sort}
}

type abortExec struct{}

func (e *Exec) loopOrdinal(n ast.Node) int {
	if o, ok := e.loopOrds[n]; ok {
		return o
	}
	return -1
}

func (e *Exec) execFor(st *State, s *ast.ForStmt, label string) *State {
	if s.Init != nil {
		st = e.execStmt(st, s.Init, "")
	}
	ord := e.loopOrdinal(s)
	var spec *LoopSpec
	if e.contract != nil && e.depth == 0 {
		spec = e.contract.Loops[ord]
	} else if e.depth > 0 && e.inlineContract != nil {
		spec = e.inlineContract.Loops[ord]
	}
	cond := func(s0 *State) Term {
		if s.Cond == nil {
			return True
		}
		return e.bindLocal("lc", e.eval(s0, s.Cond))
	}
	body := func(s0 *State) *State { return e.execBlock(s0, s.Body.List) }
	post := func(s0 *State) *State {
		if s.Post != nil {
			return e.execStmt(s0, s.Post, "")
		}
		return s0
	}
	vars := e.assignedVars(condNode(s.Cond), s.Body, stmtNode(s.Post))
	return e.runLoop(st, spec, ord, label, vars, cond, body, post, s.Body.Lbrace+1, nil)
}

func condNode(x ast.Expr) ast.Node {
	if x == nil {
		return nil
	}
	return x
}
func stmtNode(x ast.Stmt) ast.Node {
	if x == nil {
		return nil
	}
	return x
}

// runLoop is the common driver for for / range loops.
func (e *Exec) runLoop(st *State, spec *LoopSpec, ord int, label string, vars []*types.Var,
	cond func(*State) Term, body func(*State) *State, post func(*State) *State, p token.Pos, synth map[string]types.Object) *State {

	if spec != nil && len(spec.Invariants) > 0 {
		// invariants that no longer fit the code (the loop was reshaped, a local renamed): the loop degrades to the
		// bounded check instead of turning a harmless edit into a contract error
		ok := true
		if e.dry == 0 {
			savedSpecPos := e.specPos
			e.specPos = p
			for _, inv := range spec.Invariants {
				if inv.E == nil {
					continue
				}
				if _, fine := e.tryTr(inv.E, e.localEnv(st)); !fine {
					ok = false
					e.note("loop-invariant", fmt.Sprintf("%s loop %d: invariant `%s` does not apply to the current code (unknown identifier or type): invariants of this loop dropped, loop checked by bounded unrolling", e.fn.Key, ord, inv.Src))
					break
				}
			}
			e.specPos = savedSpecPos
		}
		if ok {
			return e.cutLoop(st, spec, ord, label, vars, cond, body, post, p)
		}
		if e.droppedLoops == nil {
			e.droppedLoops = map[int]bool{}
		}
		e.droppedLoops[ord] = true
	} else if spec != nil && e.droppedLoops[ord] {
		spec = nil
	}
	// unrolling
	K := e.opts.Unroll
	assertUnwind := false
	if spec != nil && spec.Unroll > 0 {
		K = spec.Unroll
		assertUnwind = true
	}
	if e.dry > 0 {
		K = 1
		assertUnwind = false
	}
	f := e.pushFrame(label, true)
	var exits []*State
	cur := st
	for k := 0; k < K && !cur.dead; k++ {
		c := cond(cur)
		ex := cur.clone()
		e.addPC(ex, Not(c))
		if c.S != "true" {
			exits = append(exits, ex)
		}
		e.addPC(cur, c)
		f.conts = nil
		out := body(cur)
		outs := append([]*State{out}, f.conts...)
		cur = e.merge(outs)
		if !cur.dead {
			cur = post(cur)
		}
	}
	if !cur.dead {
		c := cond(cur)
		if assertUnwind {
			e.oblige(cur, "unwind", "", Not(c), fmt.Sprintf("loop %d finishes within %d iterations", ord, K), p)
		} else if e.dry == 0 {
			if e.boundedK < K {
				e.boundedK = K
			}
			e.unrolled = append(e.unrolled, fmt.Sprintf("%s loop %d (%s) unrolled %d times", e.fn.Key, ord, e.pos(p), K))
		}
		ex := cur
		e.addPC(ex, Not(c))
		if c.S != "true" {
			exits = append(exits, ex)
		}
	}
	e.popFrame()
	exits = append(exits, f.breaks...)
	return e.merge(exits)
}

func (e *Exec) cutLoop(st *State, spec *LoopSpec, ord int, label string, vars []*types.Var,
	cond func(*State) Term, body func(*State) *State, post func(*State) *State, p token.Pos) *State {

	savedSpecPos := e.specPos
	e.specPos = p
	defer func() { e.specPos = savedSpecPos }()
	// 1. invariants hold on entry
	for k, inv := range spec.Invariants {
		g := e.specBool(st, inv, nil)
		e.pendingView = e.viewGoalOf(inv, nil, st)
		e.obligeNamed(st, fmt.Sprintf("%s/inv#%d.%d.init", e.fn.Key, ord, k), "inv", inv.Tag, g, "loop invariant on entry: "+inv.Src, p)
	}
	// 2. havoc
	e.loopHavoc(st, spec, vars, func(s0 *State) {
		c := cond(s0)
		e.addPC(s0, c)
		f := e.pushFrame(label, true)
		out := body(s0)
		outs := append([]*State{out}, f.conts...)
		e.popFrame()
		m := e.merge(outs)
		if !m.dead {
			post(m)
		}
	})
	st.leaves = nil
	st.cut = len(e.assumps)
	for _, inv := range spec.Invariants {
		e.assumeClause(st, inv, nil)
	}
	var variant0 Term
	if spec.Decreases != nil {
		variant0 = e.bind("variant", e.specTerm(st, *spec.Decreases, nil))
	}
	// 3. arbitrary iteration
	head := st
	c := cond(head)
	exit := head.clone()
	e.addPC(exit, Not(c))
	iter := head.clone()
	e.addPC(iter, c)
	f := e.pushFrame(label, true)
	savedB := e.boundedK
	out := body(iter)
	outs := append([]*State{out}, f.conts...)
	e.popFrame()
	m := e.merge(outs)
	if !m.dead {
		m = post(m)
	}
	if !m.dead {
		for k, inv := range spec.Invariants {
			g := e.specBool(m, inv, nil)
			e.pendingView = e.viewGoalOf(inv, nil, m)
			e.obligeNamed(m, fmt.Sprintf("%s/inv#%d.%d.keep", e.fn.Key, ord, k), "inv", inv.Tag, g, "loop invariant preserved: "+inv.Src, p)
		}
		if spec.Decreases != nil {
			v1 := e.specTerm(m, *spec.Decreases, nil)
			e.obligeNamed(m, fmt.Sprintf("%s/dec#%d", e.fn.Key, ord), "dec", "", And(Lt(v1, variant0), Ge(variant0, IntLit(0))),
				"loop variant decreases and is bounded: "+spec.Decreases.Src, p)
		}
	}
	_ = savedB
	exits := []*State{exit}
	if c.S == "true" {
		exits = nil
	}
	exits = append(exits, f.breaks...)
	return e.merge(exits)
}

func (e *Exec) execRange(st *State, s *ast.RangeStmt, label string) *State {
	xt := types.Unalias(e.typeOf(s.X)).Underlying()
	ord := e.loopOrdinal(s)
	var spec *LoopSpec
	if e.contract != nil && e.depth == 0 {
		spec = e.contract.Loops[ord]
	} else if e.depth > 0 && e.inlineContract != nil {
		spec = e.inlineContract.Loops[ord]
	}
	var n Term
	var elemOf func(st *State, i Term) Term
	var elemT types.Type
	switch u := xt.(type) {
	case *types.Slice:
		sl := e.eval(st, s.X)
		sl = e.bind("rng", sl)
		n = SLen(sl)
		elemT = u.Elem()
		elemOf = func(s0 *State, i Term) Term {
			return e.toSort(e.loadElem(s0, sl, u.Elem(), i), e.sortOf(u.Elem()))
		}
	case *types.Basic:
		if u.Info()&types.IsInteger != 0 {
			n = e.bind("rngn", e.evalInt(st, s.X))
		}
	}
	if n.S == "" {
		e.unsupportedf(s.Pos(), "range over %s", xt)
		// havoc everything assigned in the body
		vars := e.assignedVars(s.Body)
		for _, v := range vars {
			if _, ok := st.vars[v]; ok {
				st.vars[v] = e.havocValue(st, v.Name(), v.Type())
			}
		}
		return st
	}
	// index variable
	var idxObj types.Object
	if id, ok := s.Key.(*ast.Ident); ok && id.Name != "_" {
		idxObj = e.info.ObjectOf(id)
	}
	hidden := idxObj == nil
	if idxObj == nil {
		idxObj = types.NewVar(s.Pos(), e.fn.Pkg.Types, "_i", types.Typ[types.Int])
	}
	// the loop counter proper is hidden (assignments to the key inside the body do not affect iteration)
	ctr := types.NewVar(s.Pos(), e.fn.Pkg.Types, "_i", types.Typ[types.Int])
	if hidden {
		ctr = idxObj.(*types.Var)
	}
	e.synth = append(e.synth, ctr)
	defer func() { e.synth = e.synth[:len(e.synth)-1] }()
	if !hidden {
		// in invariants the named key of `for i := range s` denotes the counter (same contract text as a 3-clause loop)
		e.synthAlias = append(e.synthAlias, synthAlias{idxObj.Name(), ctr})
		defer func() { e.synthAlias = e.synthAlias[:len(e.synthAlias)-1] }()
	}
	st.vars[ctr] = IntLit(0)
	var valObj types.Object
	if id, ok := s.Value.(*ast.Ident); ok && id.Name != "_" {
		valObj = e.info.ObjectOf(id)
	}
	cond := func(s0 *State) Term { return Lt(s0.vars[ctr], n) }
	body := func(s0 *State) *State {
		if !hidden {
			e.setVar(s0, idxObj, s0.vars[ctr])
		}
		if valObj != nil && elemOf != nil {
			v := elemOf(s0, s0.vars[ctr])
			if isRefType(elemT) {
				e.assume(s0, e.allocFact(v, elemT, e.allocGet(s0)))
			}
			e.setVar(s0, valObj, v)
		}
		return e.execBlock(s0, s.Body.List)
	}
	post := func(s0 *State) *State {
		s0.vars[ctr] = e.bind("_i", Add(s0.vars[ctr], IntLit(1)))
		return s0
	}
	vars := e.assignedVars(s.Body)
	vars = append(vars, ctr)
	if s.Tok == token.ASSIGN {
		if v, ok := idxObj.(*types.Var); ok && !hidden {
			vars = append(vars, v)
		}
		if v, ok := valObj.(*types.Var); ok {
			vars = append(vars, v)
		}
	}
	// with invariants the counter's range is part of the cut automatically
	if spec != nil && len(spec.Invariants) > 0 {
		sp2 := *spec
		sp2.Invariants = append([]Clause{{Src: "0 <= _i && _i <= len(range)", Raw: func(s0 *State) Term {
			return And(Le(IntLit(0), s0.vars[ctr]), Le(s0.vars[ctr], n))
		}}}, spec.Invariants...)
		out := e.runLoop(st, &sp2, ord, label, vars, cond, body, post, s.Body.Lbrace+1, nil)
		delete(out.vars, ctr)
		return out
	}
	out := e.runLoop(st, spec, ord, label, vars, cond, body, post, s.Body.Lbrace+1, nil)
	delete(out.vars, ctr)
	return out
}

func sortStrings(a []string) {
	for i := 1; i < len(a); i++ {
		for j := i; j > 0 && a[j] < a[j-1]; j-- {
			a[j], a[j-1] = a[j-1], a[j]
		}
	}
}

func (e *Exec) curContract() *Contract {
	if e.depth > 0 {
		return e.inlineContract
	}
	return e.contract
}
