package main

// Calls: builtins, conversions, modular calls through contracts, inlining of
// uncontracted in-module functions, interface dispatch, stdlib axioms.

import (
	"fmt"
	"go/ast"
	"go/token"
	"go/types"
	"strings"
)

func (e *Exec) evalCall(st *State, call *ast.CallExpr) []Term {
	if st.dead {
		return nil
	}
	// conversion
	if tv, ok := e.info.Types[call.Fun]; ok && tv.IsType() {
		if len(call.Args) != 1 {
			return []Term{e.zero(tv.Type)}
		}
		v := e.eval(st, call.Args[0])
		return []Term{e.convert(st, v, e.typeOf(call.Args[0]), tv.Type, call)}
	}
	// builtin
	if id, ok := unparen(call.Fun).(*ast.Ident); ok {
		if b, isB := e.info.ObjectOf(id).(*types.Builtin); isB {
			return e.evalBuiltin(st, b.Name(), call)
		}
	}
	// resolve callee
	var fnObj *types.Func
	var recv *TV
	var recvExpr ast.Expr
	switch f := unparen(call.Fun).(type) {
	case *ast.Ident:
		fnObj, _ = e.info.ObjectOf(f).(*types.Func)
	case *ast.SelectorExpr:
		if sel, ok := e.info.Selections[f]; ok {
			if sel.Kind() == types.MethodVal {
				fnObj, _ = sel.Obj().(*types.Func)
				recvExpr = f.X
			}
		} else {
			fnObj, _ = e.info.ObjectOf(f.Sel).(*types.Func)
		}
	}
	if fnObj == nil {
		// call of a function value (callback)
		return e.callFuncValue(st, call)
	}
	sig := fnObj.Type().(*types.Signature)
	if recvExpr != nil {
		rt := sig.Recv().Type()
		xt := e.typeOf(recvExpr)
		var rv Term
		if isInterface(xt) {
			rv = e.eval(st, recvExpr)
			recv = &TV{rv, xt}
		} else {
			_, wantPtr := rt.Underlying().(*types.Pointer)
			_, havePtr := xt.Underlying().(*types.Pointer)
			switch {
			case wantPtr && !havePtr:
				rv = e.addressOf(st, recvExpr)
			case !wantPtr && havePtr:
				p := e.eval(st, recvExpr)
				e.oblige(st, "nil", "", Not(Eq(p, IntLit(0))), "nil receiver dereference", call.Pos())
				rv = e.loadObject(st, deref(xt), p)
			default:
				rv = e.eval(st, recvExpr)
			}
			// embedded promotion: walk the selection path
			if sel, ok := e.info.Selections[unparen(call.Fun).(*ast.SelectorExpr)]; ok && len(sel.Index()) > 1 {
				rv = e.promoteRecv(st, recvExpr, sel, wantPtr)
			}
			recv = &TV{rv, rt}
		}
	}
	// arguments
	args := e.evalArgs(st, call, sig)
	if recv != nil && isInterface(recv.Ty) {
		return e.callInterface(st, call, fnObj, *recv, args)
	}
	return e.callStatic(st, call, fnObj, recv, args)
}

func unparen(x ast.Expr) ast.Expr {
	for {
		p, ok := x.(*ast.ParenExpr)
		if !ok {
			return x
		}
		x = p.X
	}
}

func (e *Exec) promoteRecv(st *State, recvExpr ast.Expr, sel *types.Selection, wantPtr bool) Term {
	base, baseT := e.evalBaseRef(st, recvExpr)
	if base.S == "" {
		e.unsupportedf(recvExpr.Pos(), "promoted method on a struct value")
		return e.fresh("recv", SInt)
	}
	ref, t := base, baseT
	idx := sel.Index()
	for _, i := range idx[:len(idx)-1] {
		s := types.Unalias(t).Underlying().(*types.Struct)
		f := s.Field(i)
		if p, isPtr := f.Type().Underlying().(*types.Pointer); isPtr {
			ref = e.loadField(st, t, f, ref)
			t = p.Elem()
		} else {
			ref = e.subRef(t, f, ref)
			t = f.Type()
		}
	}
	if wantPtr {
		return ref
	}
	return e.loadObject(st, t, ref)
}

func (e *Exec) evalArgs(st *State, call *ast.CallExpr, sig *types.Signature) []TV {
	params := sig.Params()
	var out []TV
	n := params.Len()
	// f(g()) with multi-value g
	if len(call.Args) == 1 && n > 1 {
		if tup, ok := e.typeOf(call.Args[0]).(*types.Tuple); ok {
			vs := e.evalMulti(st, call.Args[0], tup.Len())
			for i, v := range vs {
				out = append(out, TV{e.coerce(st, v, tup.At(i).Type(), params.At(i).Type()), params.At(i).Type()})
			}
			return out
		}
	}
	for i := 0; i < n; i++ {
		pt := params.At(i).Type()
		if sig.Variadic() && i == n-1 {
			if call.Ellipsis.IsValid() {
				out = append(out, TV{e.evalAs(st, call.Args[i], pt), pt})
			} else {
				et := pt.(*types.Slice).Elem()
				var vals []Term
				for _, a := range call.Args[i:] {
					vals = append(vals, e.evalAs(st, a, et))
				}
				if len(vals) == 0 {
					out = append(out, TV{NilSlice, pt})
				} else {
					ref := e.allocRef(st, "variadic")
					s := MkSlice(ref, IntLit(0), IntLit(int64(len(vals))), IntLit(int64(len(vals))))
					e.noFrame = true
					for j, v := range vals {
						e.storeElem(st, s, et, IntLit(int64(j)), e.toSort(v, e.elemSort(et)))
					}
					e.noFrame = false
					out = append(out, TV{s, pt})
				}
			}
			break
		}
		if i < len(call.Args) {
			out = append(out, TV{e.evalAs(st, call.Args[i], pt), pt})
		}
	}
	return out
}

// ---------------------------------------------------------------------------
// builtins

func (e *Exec) evalBuiltin(st *State, name string, call *ast.CallExpr) []Term {
	switch name {
	case "len", "cap":
		xt := types.Unalias(e.typeOf(call.Args[0])).Underlying()
		switch u := xt.(type) {
		case *types.Slice:
			s := e.eval(st, call.Args[0])
			if name == "len" {
				return []Term{SLen(s)}
			}
			return []Term{SCap(s)}
		case *types.Array:
			return []Term{IntLit(u.Len())}
		case *types.Pointer:
			if a, ok := u.Elem().Underlying().(*types.Array); ok {
				return []Term{IntLit(a.Len())}
			}
		case *types.Basic:
			// string length: opaque non-negative
			v := e.eval(st, call.Args[0])
			e.needStrlen()
			return []Term{mk(SInt, "strlen", v)}
		}
		e.unsupportedf(call.Pos(), "%s of %s", name, xt)
		r := e.fresh("len", SInt)
		e.assumeGlobal(Ge(r, IntLit(0)))
		return []Term{r}
	case "panic":
		if len(call.Args) > 0 {
			e.eval(st, call.Args[0])
		}
		if e.contract == nil || !e.contract.Panics || e.depth > 0 {
			e.oblige(st, "panic", "", False, "explicit panic unreachable: "+e.src(call), call.Pos())
		}
		return nil
	case "min", "max":
		t := e.typeOf(call)
		v := e.eval(st, call.Args[0])
		for _, a := range call.Args[1:] {
			w := e.eval(st, a)
			v, w = e.unify(st, v, t, w, t)
			if v.Sort == SBV64 {
				op := "bvule"
				if name == "max" {
					op = "bvuge"
				}
				v = Ite(mk(SBool, op, v, w), v, w)
			} else if name == "min" {
				v = Ite(Le(v, w), v, w)
			} else {
				v = Ite(Ge(v, w), v, w)
			}
		}
		return []Term{e.bindLocal("mm", v)}
	case "new":
		t := e.typeOf(call.Args[0])
		ref := e.allocRef(st, typeKey(t))
		e.noFrame = true
		e.storeObject(st, t, ref, e.zero(t))
		e.noFrame = false
		return []Term{ref}
	case "make":
		t := e.typeOf(call.Args[0])
		sl, ok := types.Unalias(t).Underlying().(*types.Slice)
		if !ok {
			e.unsupportedf(call.Pos(), "make of %s", t)
			return []Term{e.havocValue(st, "make", t)}
		}
		n := IntLit(0)
		if len(call.Args) > 1 {
			n = e.evalInt(st, call.Args[1])
		}
		c := n
		if len(call.Args) > 2 {
			c = e.evalInt(st, call.Args[2])
		}
		e.oblige(st, "make", "", And(Le(IntLit(0), n), Le(n, c), Le(c, IntLit(1<<47))), "make: 0 <= len <= cap within the runtime limit: "+e.src(call), call.Pos())
		ref := e.allocRef(st, "make")
		if isObjElem(sl.Elem()) {
			e.objRangeWrite(st, sl.Elem(), ref, IntLit(0), c, Term{}, Term{})
			return []Term{e.bind("mk", MkSlice(ref, IntLit(0), n, c))}
		}
		key := elemKey(sl.Elem())
		e.heapInit(key, sl.Elem())
		m := e.heapMetas[key]
		zero := Term{fmt.Sprintf("((as const %s) %s)", ArraySort(SInt, m.vsort), e.zeroElem(sl.Elem()).S), ArraySort(SInt, m.vsort)}
		st.heap[key] = e.bindHeap(key, Store(e.heapGet(st, key), ref, zero))
		return []Term{e.bind("mk", MkSlice(ref, IntLit(0), n, c))}
	case "append":
		return []Term{e.evalAppend(st, call)}
	case "copy":
		return []Term{e.evalCopy(st, call)}
	case "print", "println":
		for _, a := range call.Args {
			e.eval(st, a)
		}
		return nil
	case "clear", "delete", "close", "recover", "complex", "real", "imag":
		e.unsupportedf(call.Pos(), "builtin %s", name)
		return []Term{IntLit(0)}
	}
	e.unsupportedf(call.Pos(), "builtin %s", name)
	return []Term{IntLit(0)}
}

func (e *Exec) needStrlen() {
	e.rawDecl("fun:strlen", "(declare-fun strlen (Int) Int)")
	if !e.declared["ax:strlen"] {
		e.mark("ax:strlen")
		e.globalAxiom("(assert (forall ((s Int)) (! (>= (strlen s) 0) :pattern ((strlen s)))))")
	}
}

// checkFrameRange: stores into [lo,hi) of the backing array ref.
// checkFrameRangeT: a store into the elements [lo,hi) of the backing array ref of a slice with element type elemT.
func (e *Exec) checkFrameRangeT(st *State, elemT types.Type, ref, lo, hi Term, p token.Pos) {
	if !isObjElem(elemT) {
		e.checkFrameRange(st, elemKey(elemT), ref, lo, hi, p)
		return
	}
	if e.noFrame || e.contract == nil {
		return
	}
	e.allFields(elemT, func(owner types.Type, f *types.Var) {
		key := fieldKey(owner, f.Name())
		if e.dry > 0 {
			e.dryStores = append(e.dryStores, dryStore{key: key, ref: ref, coarse: true})
		}
		allowed := []Term{Ge(ref, e.alloc0), Ge(lo, hi)}
		for _, m := range e.modRefs {
			if m.key != key {
				continue
			}
			if m.any {
				allowed = append(allowed, True)
			} else if m.earr.S != "" {
				allowed = append(allowed, And(m.when(), Eq(ref, m.earr), Le(m.lo, lo), Le(hi, m.hi)))
			}
		}
		e.oblige(st, "frame", "", Or(allowed...), "range store allowed by modifies: elements' "+key, p)
	})
}

func (e *Exec) checkFrameRange(st *State, key string, ref, lo, hi Term, p token.Pos) {
	if e.dry > 0 {
		e.dryStores = append(e.dryStores, dryStore{key: key, ref: ref})
	}
	if e.noFrame || e.contract == nil {
		return
	}
	allowed := []Term{Ge(ref, e.alloc0), Ge(lo, hi), Eq(ref, IntLit(0))}
	for _, m := range e.modRefs {
		if m.key != key {
			continue
		}
		if m.any {
			allowed = append(allowed, True)
		} else if m.isElem {
			allowed = append(allowed, And(m.when(), Eq(ref, m.ref), Le(m.lo, lo), Le(hi, m.hi)))
		}
	}
	e.oblige(st, "frame", "", Or(allowed...), "range store allowed by modifies: "+key, p)
}

// objRangeWrite gives the elements [dlo, dlo+n) of the backing array darr (a slice of structs) new field values:
// zero values (sarr.S == "") or the fields of the elements [slo, slo+n) of sarr, read in the state before the write.
func (e *Exec) objRangeWrite(st *State, elemT types.Type, darr, dlo, n Term, sarr, slo Term) {
	e.needEref()
	x := Term{"x!o", SInt}
	in := isErefIn(x, darr, dlo, Add(dlo, n))
	e.allFields(elemT, func(owner types.Type, f *types.Var) {
		key := fieldKey(owner, f.Name())
		e.heapInit(key, f.Type())
		m := e.heapMetas[key]
		h := e.heapGet(st, key)
		nh := e.fresh("fldmap", m.sort)
		var val Term
		if sarr.S == "" {
			val = e.toSort(e.zero(f.Type()), m.vsort)
		} else {
			val = Select(h, mk(SInt, "eref", sarr, Add(slo, Sub(mk(SInt, "einv2", x), dlo))), m.vsort)
		}
		e.assumps = append(e.assumps, fmt.Sprintf("(assert (forall ((x!o Int)) (! (= %s %s) :pattern (%s))))",
			Select(nh, x, m.vsort).S, Ite(in, val, Select(h, x, m.vsort)).S, Select(nh, x, m.vsort).S))
		if sarr.S != "" {
			// source-directed instance: element j of the source is element dlo + (j - slo) of the destination
			j := Term{"j!o", SInt}
			src := Select(h, mk(SInt, "eref", sarr, j), m.vsort)
			dst := Select(nh, mk(SInt, "eref", darr, Add(dlo, Sub(j, slo))), m.vsort)
			e.assumps = append(e.assumps, fmt.Sprintf("(assert (forall ((j!o Int)) (! (=> (and (<= %s j!o) (< j!o %s)) (= %s %s)) :weight 8 :pattern (%s))))",
				slo.S, Add(slo, n).S, src.S, dst.S, src.S))
		}
		st.heap[key] = nh
	})
}

// writeRange implements copy(d[:n], s[:n]) on the element memory: forward axiom (pattern on
// the destination) and reverse axiom (pattern on the source, so that "this source element
// is somewhere in the destination" finds its witness).
func (e *Exec) writeRange(st *State, elemT types.Type, d, s Term, n Term, p token.Pos) {
	if isObjElem(elemT) {
		e.objRangeWrite(st, elemT, SRef(d), SOff(d), n, SRef(s), SOff(s))
		return
	}
	key := elemKey(elemT)
	e.heapInit(key, elemT)
	m := e.heapMetas[key]
	h := e.heapGet(st, key)
	inner := ArraySort(SInt, m.vsort)
	oldD := Select(h, SRef(d), inner)
	oldS := e.bindLocal("srcarr", Select(h, SRef(s), inner))
	na := e.fresh("arr", inner)
	droot, ddelta := splitOff(SOff(d))
	sroot, sdelta := splitOff(SOff(s))
	dlo := Add(droot, ddelta)
	i := Term{"i!w", SInt}
	inR := And(Le(dlo, i), Lt(i, Add(dlo, n)))
	val := Ite(inR, Select(oldS, Add(sroot, Add(sdelta, Sub(i, dlo))), m.vsort), Select(oldD, i, m.vsort))
	e.assumps = append(e.assumps, fmt.Sprintf("(assert (forall ((i!w Int)) (! (= %s %s) :pattern (%s))))",
		Select(na, i, m.vsort).S, val.S, Select(na, i, m.vsort).S))
	oldDn := e.bindLocal("dstarr", oldD)
	keep := Implies(Not(inR), Eq(Select(na, i, m.vsort), Select(oldDn, i, m.vsort)))
	e.assumps = append(e.assumps, fmt.Sprintf("(assert (forall ((i!w Int)) (! %s :pattern (%s))))", keep.S, Select(oldDn, i, m.vsort).S))
	// reverse direction in absolute addresses: pattern (select src q) matches every known source element
	x := Term{"x!w", SInt}
	sbase := Add(sroot, sdelta)
	srcAt := Select(oldS, x, m.vsort)
	dstAt := Select(na, Add(dlo, Sub(x, sbase)), m.vsort)
	rev := Implies(And(Le(sbase, x), Lt(x, Add(sbase, n))), Eq(srcAt, dstAt))
	// weight: terms created by instantiation must not re-trigger this axiom eagerly (forward/reverse would loop)
	e.assumps = append(e.assumps, fmt.Sprintf("(assert (forall ((x!w Int)) (! %s :weight 8 :pattern (%s))))", rev.S, srcAt.S))
	st.heap[key] = e.bindHeap(key, Store(h, SRef(d), na))
}

func (e *Exec) evalCopy(st *State, call *ast.CallExpr) Term {
	dt, ok1 := types.Unalias(e.typeOf(call.Args[0])).Underlying().(*types.Slice)
	_, ok2 := types.Unalias(e.typeOf(call.Args[1])).Underlying().(*types.Slice)
	if !ok1 || !ok2 {
		e.unsupportedf(call.Pos(), "copy with non-slice operand")
		r := e.fresh("copyn", SInt)
		e.assumeGlobal(Ge(r, IntLit(0)))
		return r
	}
	d := e.eval(st, call.Args[0])
	s := e.eval(st, call.Args[1])
	n := e.bind("copyn", Ite(Le(SLen(d), SLen(s)), SLen(d), SLen(s)))
	e.checkFrameRangeT(st, dt.Elem(), SRef(d), SOff(d), Add(SOff(d), n), call.Pos())
	e.writeRange(st, dt.Elem(), d, s, n, call.Pos())
	return n
}

func (e *Exec) evalAppend(st *State, call *ast.CallExpr) Term {
	stT := types.Unalias(e.typeOf(call.Args[0])).Underlying().(*types.Slice)
	et := stT.Elem()
	s := e.eval(st, call.Args[0])
	s = e.bind("aps", s)
	key := elemKey(et)
	e.heapInit(key, et)
	m := e.heapMetas[key]
	inner := ArraySort(SInt, m.vsort)
	var t Term      // appended slice (spread form)
	var vals []Term // appended values (plain form)
	var k Term
	if call.Ellipsis.IsValid() {
		t = e.eval(st, call.Args[1])
		if t.Sort != SSlice {
			e.unsupportedf(call.Pos(), "append of a string")
			return e.havocValue(st, "app", e.typeOf(call))
		}
		t = e.bind("apt", t)
		k = SLen(t)
	} else {
		for _, a := range call.Args[1:] {
			vals = append(vals, e.toSort(e.evalAs(st, a, et), m.vsort))
		}
		if len(vals) == 0 {
			return s
		}
		k = IntLit(int64(len(vals)))
	}
	newLen := e.bind("aplen", Add(SLen(s), k))
	inplace := e.bindLocal("inpl", Le(newLen, SCap(s)))
	nref := e.allocRef(st, "append")
	ncap := e.fresh("cap", SInt)
	e.assumeGlobal(And(Ge(ncap, newLen), Le(ncap, IntLit(1<<47))))
	// branch 1: enough capacity, the shared backing array is written
	a := st.clone()
	e.addPC(a, inplace)
	if !a.dead {
		dst := MkSlice(SRef(s), SubOff(s, SLen(s)), k, Sub(SCap(s), SLen(s)))
		e.checkFrameRangeT(a, et, SRef(s), SOff(dst), Add(SOff(dst), k), call.Pos())
		if t.S != "" {
			e.writeRange(a, et, dst, t, k, call.Pos())
		} else {
			for j, v := range vals {
				e.storeElem(a, dst, et, IntLit(int64(j)), v)
			}
		}
	}
	// branch 2: reallocation; the old array is left untouched
	b := st.clone()
	e.addPC(b, Not(inplace))
	if !b.dead {
		if isObjElem(et) {
			e.objRangeWrite(b, et, nref, IntLit(0), ncap, Term{}, Term{})
		} else {
			h := e.heapGet(b, key)
			zero := Term{fmt.Sprintf("((as const %s) %s)", inner, e.zeroElem(et).S), inner}
			b.heap[key] = e.bindHeap(key, Store(h, nref, zero))
		}
		ns := MkSlice(nref, IntLit(0), newLen, ncap)
		e.noFrame = true
		e.writeRange(b, et, MkSlice(nref, IntLit(0), SLen(s), ncap), s, SLen(s), call.Pos())
		tail := MkSlice(nref, SLen(s), k, Sub(ncap, SLen(s)))
		if t.S != "" {
			e.writeRange(b, et, tail, t, k, call.Pos())
		} else {
			for j, v := range vals {
				e.storeElem(b, tail, et, IntLit(int64(j)), v)
			}
		}
		e.noFrame = false
		_ = ns
	}
	mrg := e.merge([]*State{a, b})
	*st = *mrg
	return e.bind("app", MkSlice(Ite(inplace, SRef(s), nref), Ite(inplace, SOff(s), IntLit(0)), newLen, Ite(inplace, SCap(s), ncap)))
}

// ---------------------------------------------------------------------------
// function values

func (e *Exec) callFuncValue(st *State, call *ast.CallExpr) []Term {
	for _, a := range call.Args {
		e.eval(st, a)
	}
	e.note("callback", fmt.Sprintf("%s: call of a function value %s: result arbitrary, assumed not to touch library state", e.fn.Key, e.src(call.Fun)))
	sig, ok := types.Unalias(e.typeOf(call.Fun)).Underlying().(*types.Signature)
	if !ok {
		e.unsupportedf(call.Pos(), "call of non-function value")
		return nil
	}
	var out []Term
	for i := 0; i < sig.Results().Len(); i++ {
		out = append(out, e.havocValue(st, "cbres", sig.Results().At(i).Type()))
	}
	return out
}

// ---------------------------------------------------------------------------
// static calls

func funcKeyOf(fn *types.Func) string {
	sig := fn.Type().(*types.Signature)
	key := ""
	if fn.Pkg() != nil {
		key = pkgShort(fn.Pkg().Path()) + "."
	}
	if r := sig.Recv(); r != nil {
		t := r.Type()
		if p, ok := t.(*types.Pointer); ok {
			t = p.Elem()
		}
		if n, ok := types.Unalias(t).(*types.Named); ok {
			key += n.Obj().Name() + "."
		}
	}
	return key + fn.Name()
}

func (e *Exec) callStatic(st *State, call *ast.CallExpr, fn *types.Func, recv *TV, args []TV) []Term {
	key := funcKeyOf(fn)
	if out, ok := e.stdlibCall(st, call, fn, key, recv, args); ok {
		return out
	}
	fi := e.prog.FuncByObj[fn.Origin()]
	var ct *Contract
	if fi != nil {
		ct = contractFor(e.prog, fi)
	}
	if ct != nil && fi != nil {
		e.calledContracts[key] = true
		if ct.Iface && recv != nil {
			// static call of a method whose contract is the interface contract
			// the receiver is given the interface type: repr(this) in modifies enumerates the implementations of that type
			r := TV{st.contOf(e.kindCode(recv.Ty), recv.T), recv.Ty}
			if it := e.ifaceNamedType(ct); it != nil {
				r.Ty = it
			} else {
				e.specErrors = append(e.specErrors, "interface type of "+ct.Key+" not found: frame of a static call cannot be applied")
			}
			return e.applyIfaceContract(st, call, fn, ct, r, args)
		}
		return e.applyContract(st, call, fi, ct, recv, args)
	}
	if fi != nil && fi.Decl.Body != nil && e.depth < 3 && !e.opts.NoInline && !e.inStack(key) {
		return e.inlineCall(st, call, fi, recv, args)
	}
	// unknown function: arbitrary result, no heap effect assumed
	e.note("external", fmt.Sprintf("call of %s without contract: result arbitrary, heap assumed unchanged", key))
	sig := fn.Type().(*types.Signature)
	var out []Term
	for i := 0; i < sig.Results().Len(); i++ {
		out = append(out, e.havocValue(st, "ext_"+fn.Name(), sig.Results().At(i).Type()))
	}
	return out
}

func (e *Exec) inStack(key string) bool {
	for _, k := range e.inlineStack {
		if k == key {
			return true
		}
	}
	return key == e.fn.Key
}

// calleeNames returns receiver/parameter/result names of a function declaration.
func calleeNames(fi *FuncInfo) (recv string, params []string, results []string) {
	fd := fi.Decl
	if fd.Recv != nil && len(fd.Recv.List) > 0 && len(fd.Recv.List[0].Names) > 0 {
		recv = fd.Recv.List[0].Names[0].Name
	}
	for _, f := range fd.Type.Params.List {
		if len(f.Names) == 0 {
			params = append(params, "_")
		}
		for _, n := range f.Names {
			params = append(params, n.Name)
		}
	}
	if fd.Type.Results != nil {
		for _, f := range fd.Type.Results.List {
			if len(f.Names) == 0 {
				results = append(results, "")
			}
			for _, n := range f.Names {
				results = append(results, n.Name)
			}
		}
	}
	return
}

func (e *Exec) contractEnv(fi *FuncInfo, recv *TV, args []TV, cur, old *State) *SpecEnv {
	env := &SpecEnv{vars: map[string]TV{}, oldVars: map[string]TV{}, cur: cur, old: old, pkg: pkgShort(fi.Pkg.PkgPath), tpkg: fi.Pkg.Types}
	rn, pn, _ := calleeNames(fi)
	if recv != nil && rn != "" {
		env.vars[rn] = *recv
	}
	for i, n := range pn {
		if i < len(args) && n != "_" {
			env.vars[n] = args[i]
		}
	}
	return env
}

func (e *Exec) bindResults(env *SpecEnv, fi *FuncInfo, res []TV) {
	_, _, rn := calleeNames(fi)
	for i, r := range res {
		env.vars[fmt.Sprintf("res%d", i)] = r
		if i < len(rn) && rn[i] != "" && rn[i] != "_" {
			env.vars[rn[i]] = r
		}
	}
	if len(res) > 0 {
		env.vars["res"] = res[0]
	}
}

// modLocs translates a modifies clause list in env.
func (e *Exec) modLocs(clauses []Clause, env *SpecEnv) []modLoc {
	var out []modLoc
	for _, c := range clauses {
		switch x := c.E.(type) {
		case *SCall:
			if x.Fun == "elems" && len(x.Args) == 1 {
				v := e.tr(x.Args[0], env)
				sl, ok := types.Unalias(v.Ty).Underlying().(*types.Slice)
				if !ok {
					e.specFail("elems() of a non-slice in modifies")
				}
				if isObjElem(sl.Elem()) {
					// the fields of the element objects
					e.needEref()
					e.allFields(sl.Elem(), func(owner types.Type, f *types.Var) {
						fk := fieldKey(owner, f.Name())
						e.heapInit(fk, f.Type())
						out = append(out, modLoc{key: fk, earr: SRef(v.T), lo: SOff(v.T), hi: Add(SOff(v.T), SCap(v.T))})
					})
					continue
				}
				key := elemKey(sl.Elem())
				e.heapInit(key, sl.Elem())
				out = append(out, modLoc{key: key, ref: SRef(v.T), lo: SOff(v.T), hi: Add(SOff(v.T), SCap(v.T)), isElem: true})
				continue
			}
			if x.Fun == "allof" && len(x.Args) == 1 {
				// every field of the object
				v := e.tr(x.Args[0], env)
				p, ok := types.Unalias(v.Ty).Underlying().(*types.Pointer)
				if !ok {
					e.specFail("allof() of a non-pointer")
				}
				e.allFields(p.Elem(), func(owner types.Type, f *types.Var) {
					key := fieldKey(owner, f.Name())
					e.heapInit(key, f.Type())
					out = append(out, modLoc{key: key, ref: v.T})
				})
				continue
			}
			if (x.Fun == "repr" || x.Fun == "fields") && len(x.Args) == 1 {
				// repr: the representation of an interface value: per kind, its fields and the backing arrays of its slice fields
				// fields: the fields only (the storage the slice fields point to is not written)
				fieldsOnly := x.Fun == "fields"
				v := e.tr(x.Args[0], env)
				if v.T.Sort != SCont {
					e.specFail("repr() of a non-interface value")
				}
				if len(e.implementations(v.Ty)) == 0 {
					e.specFail("repr() of %s: no implementations known", v.Ty)
				}
				for _, it := range e.implementations(v.Ty) {
					kc := Eq(CKind(v.T), IntLit(int64(e.kindCode(it))))
					ref := CRef(v.T)
					pt := it.(*types.Pointer).Elem()
					e.allFields(pt, func(owner types.Type, f *types.Var) {
						key := fieldKey(owner, f.Name())
						e.heapInit(key, f.Type())
						out = append(out, modLoc{key: key, ref: ref, cond: kc})
						if sl, ok := types.Unalias(f.Type()).Underlying().(*types.Slice); ok && !fieldsOnly {
							ek := elemKey(sl.Elem())
							e.heapInit(ek, sl.Elem())
							sv := e.loadField(env.cur, owner, f, ref)
							out = append(out, modLoc{key: ek, ref: SRef(sv), lo: SOff(sv), hi: Add(SOff(sv), SCap(sv)), isElem: true, cond: kc})
						}
					})
				}
				continue
			}
			if x.Fun == "anyfield" && len(x.Args) == 2 {
				// anyfield(T, f): field f of every object of struct type T (coarse frame of whole-structure operations)
				tid, _ := x.Args[0].(*SIdent)
				fid, _ := x.Args[1].(*SIdent)
				if tid == nil || fid == nil {
					e.specFail("anyfield(T, f)")
				}
				t := e.resolveType(env.tpkg, tid.Name)
				found := false
				e.allFields(t, func(owner types.Type, f *types.Var) {
					if f.Name() == fid.Name {
						found = true
						key := fieldKey(owner, f.Name())
						e.heapInit(key, f.Type())
						out = append(out, modLoc{key: key, any: true})
					}
				})
				if !found {
					e.specFail("anyfield: no field %s in %s", fid.Name, tid.Name)
				}
				continue
			}
			if x.Fun == "anyelems" && len(x.Args) == 1 {
				id, _ := x.Args[0].(*SIdent)
				if id == nil {
					e.specFail("anyelems(T)")
				}
				t := e.resolveType(env.tpkg, id.Name)
				key := elemKey(t)
				e.heapInit(key, t)
				out = append(out, modLoc{key: key, any: true, isElem: true})
				continue
			}
		case *SField:
			b := e.tr(x.X, env)
			p, ok := types.Unalias(b.Ty).Underlying().(*types.Pointer)
			if !ok {
				e.specFail("modifies %s: base is not a pointer", c.Src)
			}
			var found bool
			e.allFields(p.Elem(), func(owner types.Type, f *types.Var) {
				if f.Name() == x.Name && !found {
					found = true
					key := fieldKey(owner, f.Name())
					e.heapInit(key, f.Type())
					out = append(out, modLoc{key: key, ref: b.T})
				}
			})
			if !found {
				e.specFail("modifies %s: no such field", c.Src)
			}
			continue
		}
		e.specFail("unsupported modifies location %s", c.Src)
	}
	return out
}

// allFields enumerates the leaf fields of a struct type (descending into by-value struct fields).
func (e *Exec) allFields(t types.Type, f func(owner types.Type, fld *types.Var)) {
	st, ok := types.Unalias(t).Underlying().(*types.Struct)
	if !ok {
		return
	}
	for i := 0; i < st.NumFields(); i++ {
		fl := st.Field(i)
		if _, isStruct := types.Unalias(fl.Type()).Underlying().(*types.Struct); isStruct && !isValueStruct(fl.Type()) {
			e.allFields(fl.Type(), f)
			continue
		}
		f(t, fl)
	}
}

// havocLocs applies the heap effect of a call: each listed location gets an arbitrary new content.
func (e *Exec) havocLocs(st *State, locs []modLoc, p token.Pos) {
	// group element locations by key so that one quantified frame covers them
	for _, l := range locs {
		m := e.heapMetas[l.key]
		h := e.heapGet(st, l.key)
		if l.any {
			e.heapHavoc(st, l.key)
			if e.dry > 0 {
				e.dryStores = append(e.dryStores, dryStore{key: l.key, ref: e.fresh("anyref", SInt)})
			}
			continue
		}
		if l.earr.S != "" {
			// field l.key of the element objects [lo,hi) of a slice of structs
			saved := st.pc
			e.syncCtx(saved.S)
			n0 := len(e.assumps)
			e.addPC(st, l.when())
			if !(e.noFrame || e.contract == nil) {
				allowed := []Term{Ge(l.earr, e.alloc0), Ge(l.lo, l.hi)}
				for _, mr := range e.modRefs {
					if mr.key != l.key {
						continue
					}
					if mr.any {
						allowed = append(allowed, True)
					} else if mr.earr.S != "" {
						allowed = append(allowed, And(mr.when(), Eq(l.earr, mr.earr), Le(mr.lo, l.lo), Le(l.hi, mr.hi)))
					}
				}
				e.oblige(st, "frame", "", Or(allowed...), "range store allowed by modifies: elements' "+l.key, p)
			}
			st.pc = saved
			e.reparentSince(n0, saved.S)
			if e.dry > 0 {
				e.dryStores = append(e.dryStores, dryStore{key: l.key, ref: l.earr, coarse: true})
			}
			x := Term{"x!o", SInt}
			nh := e.fresh("fldmap", m.sort)
			keep := Implies(Not(And(l.when(), isErefIn(x, l.earr, l.lo, l.hi))), Eq(Select(nh, x, m.vsort), Select(h, x, m.vsort)))
			e.assumps = append(e.assumps, fmt.Sprintf("(assert (forall ((x!o Int)) (! %s :pattern (%s))))", keep.S, Select(nh, x, m.vsort).S))
			if rf := e.rangeFact(Select(nh, x, m.vsort), m.vtype); rf.S != "true" {
				e.assumps = append(e.assumps, fmt.Sprintf("(assert (forall ((x!o Int)) (! %s :pattern (%s))))", rf.S, Select(nh, x, m.vsort).S))
			}
			st.heap[l.key] = nh
			continue
		}
		if l.cond.S != "" && l.cond.S != "true" {
			// conditional location: havoc under the condition only
			saved := st.pc
			e.syncCtx(saved.S)
			n0 := len(e.assumps)
			e.addPC(st, l.cond)
			if l.isElem {
				e.checkFrameRange(st, l.key, l.ref, l.lo, l.hi, p)
			} else {
				e.checkFrame(st, l.key, l.ref, Term{}, false, p)
			}
			st.pc = saved
			e.reparentSince(n0, saved.S)
			if l.isElem {
				inner := ArraySort(SInt, m.vsort)
				na := e.fresh("arr", inner)
				i := Term{"i!w", SInt}
				oldA := Select(h, l.ref, inner)
				keep := Implies(Or(Not(l.cond), Lt(i, l.lo), Ge(i, l.hi)), Eq(Select(na, i, m.vsort), Select(oldA, i, m.vsort)))
				e.assumps = append(e.assumps, fmt.Sprintf("(assert (forall ((i!w Int)) (! %s :pattern (%s))))", keep.S, Select(na, i, m.vsort).S))
				rf := e.rangeFact(Select(na, i, m.vsort), m.vtype)
				if rf.S != "true" {
					e.assumps = append(e.assumps, fmt.Sprintf("(assert (forall ((i!w Int)) (! %s :pattern (%s))))", rf.S, Select(na, i, m.vsort).S))
				}
				st.heap[l.key] = e.bindHeap(l.key, Ite(l.cond, Store(h, l.ref, na), h))
			} else {
				nv := e.fresh("fld", m.vsort)
				e.assumeGlobal(e.rangeFact(nv, m.vtype))
				e.assume(st, e.allocFact(nv, m.vtype, e.allocGet(st)))
				st.heap[l.key] = e.bindHeap(l.key, Ite(l.cond, Store(h, l.ref, nv), h))
			}
			continue
		}
		if l.isElem {
			e.checkFrameRange(st, l.key, l.ref, l.lo, l.hi, p)
			inner := ArraySort(SInt, m.vsort)
			na := e.fresh("arr", inner)
			i := Term{"i!w", SInt}
			oldA := Select(h, l.ref, inner)
			keep := Implies(Or(Lt(i, l.lo), Ge(i, l.hi)), Eq(Select(na, i, m.vsort), Select(oldA, i, m.vsort)))
			e.assumps = append(e.assumps, fmt.Sprintf("(assert (forall ((i!w Int)) (! %s :pattern (%s))))", keep.S, Select(na, i, m.vsort).S))
			rf := e.rangeFact(Select(na, i, m.vsort), m.vtype)
			if rf.S != "true" {
				e.assumps = append(e.assumps, fmt.Sprintf("(assert (forall ((i!w Int)) (! %s :pattern (%s))))", rf.S, Select(na, i, m.vsort).S))
			}
			st.heap[l.key] = e.bindHeap(l.key, Store(h, l.ref, na))
		} else {
			e.checkFrame(st, l.key, l.ref, Term{}, false, p)
			nv := e.fresh("fld", m.vsort)
			e.assumeGlobal(e.rangeFact(nv, m.vtype))
			st.heap[l.key] = e.bindHeap(l.key, Store(h, l.ref, nv))
		}
	}
}

// advanceAlloc moves the allocation frontier to an arbitrary later point.
func (e *Exec) advanceAlloc(st *State) Term {
	na := e.fresh("alloc", SInt)
	e.assumeGlobal(Ge(na, e.allocGet(st)))
	st.heap["alloc"] = na
	return na
}

func (e *Exec) applyContract(st *State, call *ast.CallExpr, fi *FuncInfo, ct *Contract, recv *TV, args []TV) []Term {
	site := e.counters["call"]
	e.counters["call"] = site + 1
	pre := st.clone()
	var pos token.Pos
	if call != nil {
		pos = call.Pos()
	}
	func() {
		defer e.catchSpec(ct.Key, pos)
		envPre := e.contractEnv(fi, recv, args, pre, pre)
		for k, r := range ct.Requires {
			g := e.specBool(pre, r, envPre)
			e.obligeNamed(st, fmt.Sprintf("%s/call#%d.pre.%d", e.fn.Key, site, k), "call", r.Tag, g,
				fmt.Sprintf("precondition of %s: %s", ct.Key, r.Src), pos)
		}
		if ct.Decreases != nil && fi.Key == e.fn.Key && e.depth == 0 {
			m1 := e.specTerm(pre, *ct.Decreases, envPre)
			m0 := e.specTerm(e.entry, *ct.Decreases, e.entryEnv(e.entry))
			e.obligeNamed(st, fmt.Sprintf("%s/call#%d.dec", e.fn.Key, site), "dec", "", And(Le(IntLit(0), m1), Lt(m1, m0)),
				"recursive call decreases the measure: "+ct.Decreases.Src, pos)
		} else if fi.Key == e.fn.Key && e.depth == 0 {
			e.note("termination", e.fn.Key+": recursive call without a decreases clause (partial correctness only)")
		}
		locs := e.modLocs(ct.Modifies, envPre)
		// the allocation frontier advances BEFORE the modified locations get their new contents: those may
		// hold references to objects allocated by the callee
		e.advanceAlloc(st)
		e.havocLocs(st, locs, pos)
	}()
	na := e.allocGet(st)
	if na.S == e.allocGet(pre).S {
		na = e.advanceAlloc(st)
	}
	sig := fi.Obj.Type().(*types.Signature)
	var res []TV
	var out []Term
	for i := 0; i < sig.Results().Len(); i++ {
		rt := sig.Results().At(i).Type()
		v := e.fresh("r_"+fi.Decl.Name.Name, e.resultSort(ct, i, rt))
		e.assumeGlobal(e.rangeFact(v, rt))
		e.assume(st, e.allocFact(v, rt, na))
		res = append(res, TV{v, rt})
		out = append(out, v)
	}
	func() {
		defer e.catchSpec(ct.Key, pos)
		envPost := e.contractEnv(fi, recv, args, st, pre)
		e.bindResults(envPost, fi, res)
		for _, en := range ct.Ensures {
			e.assumeClause(st, en, envPost)
		}
	}()
	if ct.Trusted != "" {
		e.note("trusted", fmt.Sprintf("%s: %s", ct.Key, ct.Trusted))
	}
	return out
}

func (e *Exec) catchSpec(where string, p token.Pos) {
	if r := recover(); r != nil {
		if se, ok := r.(specErr); ok {
			e.specErrors = append(e.specErrors, fmt.Sprintf("%s (at %s): %s", where, e.pos(p), se.msg))
			return
		}
		panic(r)
	}
}

// inlineCall executes the callee's body in place.
func (e *Exec) inlineCall(st *State, call *ast.CallExpr, fi *FuncInfo, recv *TV, args []TV) []Term {
	e.inlined[fi.Key] = true
	fd := fi.Decl
	sig := fi.Obj.Type().(*types.Signature)
	savedInfo, savedPkg, savedIC := e.info, e.curPkg, e.inlineContract
	e.info = fi.Pkg.TypesInfo
	e.curPkg = fi
	e.inlineContract = e.prog.Contracts[fi.Key]
	e.inlineStack = append(e.inlineStack, fi.Key)
	e.depth++
	defer func() {
		e.depth--
		e.inlineStack = e.inlineStack[:len(e.inlineStack)-1]
		e.info, e.curPkg, e.inlineContract = savedInfo, savedPkg, savedIC
	}()
	// bind receiver and parameters
	if recv != nil && fd.Recv != nil && len(fd.Recv.List[0].Names) > 0 {
		if obj := e.info.Defs[fd.Recv.List[0].Names[0]]; obj != nil {
			st.vars[obj] = recv.T
		}
	}
	i := 0
	for _, f := range fd.Type.Params.List {
		if len(f.Names) == 0 {
			i++
			continue
		}
		for _, n := range f.Names {
			if obj := e.info.Defs[n]; obj != nil && i < len(args) {
				e.setVarInline(st, obj, args[i].T)
			}
			i++
		}
	}
	var resObjs []types.Object
	k := 0
	if fd.Type.Results != nil {
		for _, f := range fd.Type.Results.List {
			if len(f.Names) == 0 {
				o := types.NewVar(fd.Pos(), fi.Pkg.Types, fmt.Sprintf("_r%d", k), sig.Results().At(k).Type())
				resObjs = append(resObjs, o)
				st.vars[o] = e.zero(o.Type())
				k++
				continue
			}
			for _, n := range f.Names {
				o := e.info.Defs[n]
				resObjs = append(resObjs, o)
				st.vars[o] = e.zero(o.Type())
				k++
			}
		}
	}
	e.resStack = append(e.resStack, resObjs)
	fr := &ctlFrame{isInline: true}
	e.frames = append(e.frames, fr)
	savedLoopOrds := e.loopOrds
	e.loopOrds = numberLoops(fd)
	out := e.execBlock(st, fd.Body.List)
	e.loopOrds = savedLoopOrds
	e.frames = e.frames[:len(e.frames)-1]
	e.resStack = e.resStack[:len(e.resStack)-1]
	rets := fr.rets
	if !out.dead {
		rets = append(rets, out) // fell off the end (no results)
	}
	m := e.merge(rets)
	// copy the merged state back into st (the caller continues with st)
	*st = *m
	var res []Term
	for _, o := range resObjs {
		res = append(res, st.vars[o])
	}
	return res
}

func (e *Exec) setVarInline(st *State, obj types.Object, v Term) {
	if vo, ok := obj.(*types.Var); ok && e.boxed[vo] {
		e.setVar(st, obj, v)
		return
	}
	st.vars[obj] = v
}

func numberLoops(fd *ast.FuncDecl) map[ast.Node]int {
	out := map[ast.Node]int{}
	n := 0
	if fd.Body == nil {
		return out
	}
	ast.Inspect(fd.Body, func(m ast.Node) bool {
		switch m.(type) {
		case *ast.ForStmt, *ast.RangeStmt:
			out[m] = n
			n++
		case *ast.FuncLit:
			return false
		}
		return true
	})
	return out
}

// ---------------------------------------------------------------------------
// interface calls

func (e *Exec) callInterface(st *State, call *ast.CallExpr, fn *types.Func, recv TV, args []TV) []Term {
	e.oblige(st, "nil", "", Not(Eq(CKind(recv.T), IntLit(0))), "method call on nil interface: "+e.src(call.Fun), call.Pos())
	iname := namedName(recv.Ty)
	if nt, ok := types.Unalias(recv.Ty).(*types.Named); ok {
		iname = nt.Obj().Name() // contract keys are <pkg>.<Type>.<method>
	}
	key := ""
	if fn.Pkg() != nil {
		key = pkgShort(fn.Pkg().Path()) + "."
	}
	key += iname + "." + fn.Name()
	if ct := e.prog.Contracts[key]; ct != nil && ct.Iface {
		return e.applyIfaceContract(st, call, fn, ct, recv, args)
	}
	if fn.Pkg() != nil { // historical key form <pkg>.<pkg>_<Type>.<method>
		if ct := e.prog.Contracts[pkgShort(fn.Pkg().Path())+"."+namedName(recv.Ty)+"."+fn.Name()]; ct != nil && ct.Iface {
			return e.applyIfaceContract(st, call, fn, ct, recv, args)
		}
	}
	if out, ok := e.stdlibIface(st, call, fn, iname, recv, args); ok {
		return out
	}
	// dynamic dispatch over the implementations in the module
	impls := e.implementations(recv.Ty)
	if len(impls) == 0 || len(impls) > 4 {
		e.note("external", fmt.Sprintf("interface call %s without contract: result arbitrary, heap assumed unchanged", key))
		sig := fn.Type().(*types.Signature)
		var out []Term
		for i := 0; i < sig.Results().Len(); i++ {
			out = append(out, e.havocValue(st, "if_"+fn.Name(), sig.Results().At(i).Type()))
		}
		return out
	}
	var outs []*State
	var results [][]Term
	var kinds []Term
	for _, it := range impls {
		ms := types.NewMethodSet(it)
		selm := ms.Lookup(fn.Pkg(), fn.Name())
		if selm == nil {
			continue
		}
		m := selm.Obj().(*types.Func)
		branch := st.clone()
		kc := Eq(CKind(recv.T), IntLit(int64(e.kindCode(it))))
		e.addPC(branch, kc)
		r := TV{CRef(recv.T), it}
		res := e.callStatic(branch, call, m, &r, args)
		outs = append(outs, branch)
		results = append(results, res)
		kinds = append(kinds, kc)
	}
	// the value is one of the known implementations
	var anyKind []Term
	anyKind = append(anyKind, kinds...)
	e.assume(st, Or(anyKind...))
	sig := fn.Type().(*types.Signature)
	merged := e.merge(outs)
	var out []Term
	for i := 0; i < sig.Results().Len(); i++ {
		rt := sig.Results().At(i).Type()
		v := e.fresh("dyn_"+fn.Name(), e.sortOf(rt))
		for j, b := range outs {
			if !b.dead && i < len(results[j]) {
				e.assumeGlobal(Implies(b.pc, Eq(v, results[j][i])))
			}
		}
		out = append(out, v)
	}
	*st = *merged
	return out
}

func (e *Exec) implementations(iface types.Type) []types.Type {
	it, ok := types.Unalias(iface).Underlying().(*types.Interface)
	if !ok {
		return nil
	}
	key := typeKey(iface)
	if r, ok := e.implCache[key]; ok {
		return r
	}
	var out []types.Type
	for _, short := range []string{"roaring", "internal", "roaring64", "bsi"} {
		pkg := e.prog.Pkgs[short]
		if pkg == nil {
			continue
		}
		sc := pkg.Types.Scope()
		for _, n := range sc.Names() {
			tn, ok := sc.Lookup(n).(*types.TypeName)
			if !ok || tn.IsAlias() {
				continue
			}
			if _, isI := tn.Type().Underlying().(*types.Interface); isI {
				continue
			}
			pt := types.NewPointer(tn.Type())
			if types.Implements(pt, it) {
				out = append(out, pt)
			}
		}
	}
	e.implCache[key] = out
	return out
}

func (e *Exec) applyIfaceContract(st *State, call *ast.CallExpr, fn *types.Func, ct *Contract, recv TV, args []TV) []Term {
	// an interface contract is written against a pseudo declaration: receiver name "this", parameters by signature names
	site := e.counters["call"]
	e.counters["call"] = site + 1
	pre := st.clone()
	sig := fn.Type().(*types.Signature)
	if isig := e.ifaceMethodSig(ct); isig != nil {
		sig = isig
	}
	mkEnv := func(cur, old *State) *SpecEnv {
		env := &SpecEnv{vars: map[string]TV{"this": recv}, oldVars: map[string]TV{}, cur: cur, old: old}
		if fn.Pkg() != nil {
			env.pkg = pkgShort(fn.Pkg().Path())
			env.tpkg = fn.Pkg()
		}
		for i := 0; i < sig.Params().Len() && i < len(args); i++ {
			n := sig.Params().At(i).Name()
			if n == "" {
				n = fmt.Sprintf("a%d", i)
			}
			env.vars[n] = args[i]
			env.vars[fmt.Sprintf("a%d", i)] = args[i]
		}
		return env
	}
	var pos token.Pos
	if call != nil {
		pos = call.Pos()
	}
	func() {
		defer e.catchSpec(ct.Key, pos)
		envPre := mkEnv(pre, pre)
		for k, r := range ct.Requires {
			g := e.specBool(pre, r, envPre)
			e.obligeNamed(st, fmt.Sprintf("%s/call#%d.pre.%d", e.fn.Key, site, k), "call", r.Tag, g,
				fmt.Sprintf("precondition of %s: %s", ct.Key, r.Src), pos)
		}
		locs := e.modLocs(ct.Modifies, envPre)
		e.advanceAlloc(st)
		e.havocLocs(st, locs, pos)
	}()
	na := e.allocGet(st)
	if na.S == e.allocGet(pre).S {
		na = e.advanceAlloc(st)
	}
	var res []TV
	var out []Term
	for i := 0; i < sig.Results().Len(); i++ {
		rt := sig.Results().At(i).Type()
		v := e.fresh("r_"+fn.Name(), e.sortOf(rt))
		e.assumeGlobal(e.rangeFact(v, rt))
		e.assume(st, e.allocFact(v, rt, na))
		res = append(res, TV{v, rt})
		out = append(out, v)
	}
	func() {
		defer e.catchSpec(ct.Key, pos)
		envPost := mkEnv(st, pre)
		for i, r := range res {
			envPost.vars[fmt.Sprintf("res%d", i)] = r
		}
		if len(res) > 0 {
			envPost.vars["res"] = res[0]
		}
		for _, en := range ct.Ensures {
			e.assumeClause(st, en, envPost)
		}
	}()
	return out
}

// ---------------------------------------------------------------------------
// stdlib

func (e *Exec) nonNilError(st *State) Term {
	r := e.fresh("err", SInt)
	e.assumeGlobal(Gt(r, IntLit(0)))
	return MkCont(IntLit(99), r)
}

func (e *Exec) stdlibCall(st *State, call *ast.CallExpr, fn *types.Func, key string, recv *TV, args []TV) ([]Term, bool) {
	if fn.Pkg() == nil {
		return nil, false
	}
	path := fn.Pkg().Path()
	full := path + "." + fn.Name()
	switch full {
	case "math/bits.OnesCount64":
		e.needPopcnt()
		e.note("axiom", "math/bits.OnesCount64 is the number of one bits (popcnt)")
		return []Term{mk(SInt, "popcnt", e.toSort(args[0].T, SBV64))}, true
	case "math/bits.TrailingZeros64":
		e.needTzLz()
		return []Term{mk(SInt, "bvtz", e.toSort(args[0].T, SBV64))}, true
	case "math/bits.LeadingZeros64":
		e.needTzLz()
		return []Term{mk(SInt, "bvlz", e.toSort(args[0].T, SBV64))}, true
	case "math/bits.Len64":
		e.needTzLz()
		return []Term{Sub(IntLit(64), mk(SInt, "bvlz", e.toSort(args[0].T, SBV64)))}, true
	case "errors.New", "fmt.Errorf":
		return []Term{e.nonNilError(st)}, true
	case "io.ReadAtLeast", "io.ReadFull":
		// func ReadAtLeast(r Reader, buf []byte, min int) (n int, err error): 0 <= n <= len(buf); err == nil ==> n >= min; writes buf only
		buf := args[1]
		min := SLen(buf.T)
		if full == "io.ReadAtLeast" {
			min = args[2].T
		}
		bt := types.NewSlice(types.Typ[types.Uint8])
		key := elemKey(bt.Elem())
		e.heapInit(key, bt.Elem())
		e.havocLocs(st, []modLoc{{key: key, ref: SRef(buf.T), lo: SOff(buf.T), hi: Add(SOff(buf.T), SLen(buf.T)), isElem: true}}, call.Pos())
		n := e.fresh("nread", SInt)
		errv := e.fresh("rerr", SCont)
		e.assumeGlobal(e.rangeFact(errv, fn.Type().(*types.Signature).Results().At(1).Type()))
		e.assumeGlobal(And(Le(IntLit(0), n), Le(n, SLen(buf.T))))
		e.assume(st, Implies(Eq(CKind(errv), IntLit(0)), Ge(n, min)))
		e.note("stdlib", "io.ReadAtLeast/ReadFull: 0 <= n <= len(buf), err == nil ==> n >= min, writes only buf (documented contract)")
		return []Term{n, errv}, true
	case "fmt.Sprintf", "fmt.Sprint", "fmt.Sprintln":
		return []Term{e.fresh("str", SInt)}, true
	case "fmt.Printf", "fmt.Println", "fmt.Print":
		return []Term{IntLit(0), NilCont}, true
	}
	if path == "sync" && recv != nil && strings.HasSuffix(recv.Ty.String(), "sync.Pool") {
		switch fn.Name() {
		case "Put":
			return nil, true
		case "Get":
			// a package-level pool whose New function returns &T{}: Get yields SOME object of that type - a recycled
			// one in arbitrary state or a new one; modelled as a newly allocated object with arbitrary fields
			if t := e.poolElemType(call); t != nil {
				ref := e.allocRef(st, "pool")
				e.note("stdlib", "sync.Pool.Get returns a non-nil value of the type its New function returns, in arbitrary state, not shared with anything reachable (pools are only fed by Put of objects the caller no longer uses)")
				return []Term{MkCont(IntLit(int64(e.kindCode(t))), ref)}, true
			}
		}
	}
	if full == "encoding/binary.Write" && len(args) == 3 && args[0].T.Sort == SCont {
		// fixed-size unsigned value, little endian: encoding/binary encodes it into a fresh buffer and calls w.Write once
		// the data parameter is `any`: look at the static type of the argument expression
		var dataT types.Type = args[2].Ty
		dataV := args[2].T
		if call != nil && len(call.Args) == 3 {
			dataT = e.typeOf(call.Args[2])
			if _, isB := types.Unalias(dataT).Underlying().(*types.Basic); isB {
				dataV = e.eval(st, call.Args[2])
			}
		}
		orderT := args[1].Ty.String()
		if call != nil && len(call.Args) == 3 {
			orderT = e.typeOf(call.Args[1]).String() + " " + e.src(call.Args[1])
		}
		if b, ok := types.Unalias(dataT).Underlying().(*types.Basic); ok && strings.Contains(orderT, "ittleEndian") {
			n := map[types.BasicKind]int64{types.Uint8: 1, types.Uint16: 2, types.Uint32: 4}[b.Kind()]
			ms := types.NewMethodSet(args[0].Ty)
			if sel := ms.Lookup(nil, "Write"); n > 0 && sel != nil {
				bt := types.Universe.Lookup("byte").Type()
				ref := e.allocRef(st, "binwrite")
				key := elemKey(bt)
				e.heapInit(key, bt)
				m := e.heapMetas[key]
				zero := Term{fmt.Sprintf("((as const %s) %s)", ArraySort(SInt, m.vsort), e.zeroElem(bt).S), ArraySort(SInt, m.vsort)}
				st.heap[key] = e.bindHeap(key, Store(e.heapGet(st, key), ref, zero))
				buf := MkSlice(ref, IntLit(0), IntLit(n), IntLit(n))
				v := e.toSort(dataV, SInt)
				e.noFrame = true
				for i := int64(0); i < n; i++ {
					e.storeElem(st, buf, bt, IntLit(i), Mod(Div(v, pow2(uint(8*i))), IntLit(256)))
				}
				e.noFrame = false
				e.note("stdlib", "encoding/binary.Write of a fixed-size unsigned value: one w.Write of its little-endian bytes, the error of that Write is returned")
				res := e.callInterface(st, call, sel.Obj().(*types.Func), args[0], []TV{{buf, types.NewSlice(bt)}})
				if len(res) == 2 {
					return []Term{res[1]}, true
				}
			}
		}
	}
	if path == "encoding/binary" && recv != nil {
		need := map[string]int64{"Uint16": 2, "Uint32": 4, "Uint64": 8, "PutUint16": 2, "PutUint32": 4, "PutUint64": 8}[fn.Name()]
		little := strings.Contains(recv.Ty.String(), "littleEndian")
		if need > 0 && len(args) > 0 && args[0].T.Sort == SSlice {
			e.oblige(st, "idx", "", Ge(SLen(args[0].T), IntLit(need)), fmt.Sprintf("encoding/binary %s: buffer holds at least %d bytes", fn.Name(), need), call.Pos())
			e.note("stdlib", "encoding/binary fixed-size accessors: panic iff the buffer is too short; 16/32-bit little- and big-endian byte order modelled exactly (value = sum of b[i]*256^i resp. b[i]*256^(n-1-i)), 64-bit values arbitrary")
			sig := fn.Type().(*types.Signature)
			bt := types.Typ[types.Uint8]
			key := elemKey(bt)
			e.heapInit(key, bt)
			b := args[0].T
			byteAt := func(i int64) Term { return e.loadElem(st, b, bt, IntLit(i)) }
			if strings.HasPrefix(fn.Name(), "Put") {
				v := e.toSort(args[1].T, SInt)
				big := strings.Contains(recv.Ty.String(), "bigEndian")
				if (!little && !big) || need > 4 {
					e.havocLocs(st, []modLoc{{key: key, ref: SRef(b), lo: SOff(b), hi: Add(SOff(b), IntLit(need)), isElem: true}}, call.Pos())
					return nil, true
				}
				e.checkFrameRange(st, key, SRef(b), SOff(b), Add(SOff(b), IntLit(need)), call.Pos())
				for i := int64(0); i < need; i++ {
					sh := uint(8 * i)
					if big {
						sh = uint(8 * (need - 1 - i))
					}
					e.storeElem(st, b, bt, IntLit(i), Mod(Div(v, pow2(sh)), IntLit(256)))
				}
				return nil, true
			}
			if little && need <= 4 {
				sum := byteAt(0)
				for i := int64(1); i < need; i++ {
					sum = Add(sum, Mul(byteAt(i), pow2(uint(8*i))))
				}
				return []Term{e.bind("le", sum)}, true
			}
			if strings.Contains(recv.Ty.String(), "bigEndian") && need <= 4 {
				// big endian: value = b[0]*256^(n-1) + ... + b[n-1]
				sum := byteAt(need - 1)
				for i := int64(0); i < need-1; i++ {
					sum = Add(sum, Mul(byteAt(i), pow2(uint(8*(need-1-i)))))
				}
				return []Term{e.bind("be", sum)}, true
			}
			return []Term{e.havocValue(st, "le", sig.Results().At(0).Type())}, true
		}
	}
	return nil, false
}

// poolElemType: for a call `P.Get()` on a package-level sync.Pool variable declared with a composite literal whose New
// field is a function literal, the type of the value that function returns.
func (e *Exec) poolElemType(call *ast.CallExpr) types.Type {
	if call == nil {
		return nil
	}
	sel, ok := call.Fun.(*ast.SelectorExpr)
	if !ok {
		return nil
	}
	var id *ast.Ident
	switch x := sel.X.(type) {
	case *ast.Ident:
		id = x
	case *ast.SelectorExpr:
		id = x.Sel
	}
	if id == nil {
		return nil
	}
	obj, _ := e.info.ObjectOf(id).(*types.Var)
	if obj == nil || obj.Pkg() == nil {
		return nil
	}
	pkg := e.prog.Pkgs[pkgShort(obj.Pkg().Path())]
	if pkg == nil {
		return nil
	}
	var out types.Type
	for _, f := range pkg.Syntax {
		ast.Inspect(f, func(n ast.Node) bool {
			vs, ok := n.(*ast.ValueSpec)
			if !ok || out != nil {
				return out == nil
			}
			for i, nm := range vs.Names {
				if pkg.TypesInfo.Defs[nm] != obj || i >= len(vs.Values) {
					continue
				}
				cl, ok := vs.Values[i].(*ast.CompositeLit)
				if !ok {
					continue
				}
				for _, el := range cl.Elts {
					kv, ok := el.(*ast.KeyValueExpr)
					if !ok {
						continue
					}
					if k, ok := kv.Key.(*ast.Ident); !ok || k.Name != "New" {
						continue
					}
					fl, ok := kv.Value.(*ast.FuncLit)
					if !ok {
						continue
					}
					ast.Inspect(fl.Body, func(m ast.Node) bool {
						if r, ok := m.(*ast.ReturnStmt); ok && len(r.Results) == 1 && out == nil {
							out = pkg.TypesInfo.TypeOf(r.Results[0])
						}
						return out == nil
					})
				}
			}
			return out == nil
		})
	}
	if _, isPtr := out.(*types.Pointer); !isPtr {
		return nil
	}
	return out
}

func (e *Exec) needTzLz() {
	e.needBitLib()
	e.note("axiom", "math/bits.TrailingZeros64/LeadingZeros64/Len64: position of the lowest/highest set bit (64 for zero), stated over bit(w,k) in the lemma library")
}

func (e *Exec) stdlibIface(st *State, call *ast.CallExpr, fn *types.Func, iname string, recv TV, args []TV) ([]Term, bool) {
	if fn.Pkg() == nil && fn.Name() == "Error" {
		return []Term{e.fresh("str", SInt)}, true
	}
	return nil, false
}


// ifaceMethodSig returns the signature of the interface method an interface contract is about.
func (e *Exec) ifaceNamedType(ct *Contract) types.Type {
	parts := strings.Split(ct.Key, ".")
	if len(parts) != 3 {
		return nil
	}
	pkg := e.prog.Pkgs[parts[0]]
	if pkg == nil {
		return nil
	}
	tn, _ := pkg.Types.Scope().Lookup(parts[1]).(*types.TypeName)
	if tn == nil {
		return nil
	}
	if _, ok := tn.Type().Underlying().(*types.Interface); !ok {
		return nil
	}
	return tn.Type()
}

func (e *Exec) ifaceMethodSig(ct *Contract) *types.Signature {
	parts := strings.Split(ct.Key, ".")
	if len(parts) != 3 {
		return nil
	}
	pkg := e.prog.Pkgs[parts[0]]
	if pkg == nil {
		return nil
	}
	tn, _ := pkg.Types.Scope().Lookup(parts[1]).(*types.TypeName)
	if tn == nil {
		return nil
	}
	it, ok := tn.Type().Underlying().(*types.Interface)
	if !ok {
		return nil
	}
	for i := 0; i < it.NumMethods(); i++ {
		if it.Method(i).Name() == parts[2] {
			return it.Method(i).Type().(*types.Signature)
		}
	}
	return nil
}
