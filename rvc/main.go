package main

import (
	"fmt"
	"golang.org/x/tools/go/packages"
)

func main() {
	cfg := &packages.Config{Mode: packages.LoadAllSyntax, Dir: "/repo", BuildFlags: []string{"-tags=verif"}}
	pkgs, err := packages.Load(cfg, "./...")
	fmt.Println(len(pkgs), err)
	for _, p := range pkgs {
		fmt.Println(p.PkgPath, len(p.Syntax), len(p.Errors))
	}
}
