package main

import (
	"encoding/json"
	"flag"
	"fmt"
	"os"
	"sort"
	"strings"
)

func main() {
	if len(os.Args) < 2 {
		fmt.Fprintln(os.Stderr, "usage: rvc verify|check|lemmas|selftest|replay ...")
		os.Exit(2)
	}
	defer cleanupScratch()
	switch os.Args[1] {
	case "verify":
		code := cmdVerify(os.Args[2:])
		cleanupScratch()
		os.Exit(code)
	case "check":
		code := cmdCheck(os.Args[2:])
		cleanupScratch()
		os.Exit(code)
	case "lemmas":
		code := cmdLemmas(os.Args[2:])
		cleanupScratch()
		os.Exit(code)
	case "replay":
		code := cmdReplay(os.Args[2:])
		cleanupScratch()
		os.Exit(code)
	case "callgraph":
		os.Exit(cmdCallgraph(os.Args[2:]))
	default:
		fmt.Fprintln(os.Stderr, "unknown command", os.Args[1])
		os.Exit(2)
	}
}

func cmdVerify(args []string) int {
	fs := flag.NewFlagSet("verify", flag.ExitOnError)
	repo := fs.String("repo", "/repo", "repository root")
	funcs := fs.String("f", "", "comma-separated function keys or prefixes (default: all contracts)")
	exact := fs.Bool("x", false, "match -f keys exactly (no prefix matching)")
	listImpl := fs.Bool("listimpl", false, "print the keys of interface-method implementations that have no own annotation block, and exit")
	allImpl := fs.Bool("all", false, "without -f: also verify implementations of interface methods that have no own annotation block")
	verbose := fs.Bool("v", false, "verbose")
	unroll := fs.Int("unroll", 2, "unrolling bound for loops without invariants")
	budget := fs.Float64("t", 10, "per-query budget (s)")
	smoke := fs.Bool("smoke", false, "emit vacuity smoke obligations")
	dump := fs.String("dump", "", "dump queries into this directory")
	jobs := fs.Int("j", 0, "parallel solver jobs (default: 16, fewer when the machine is loaded)")
	jsonOut := fs.String("json", "", "write per-obligation results to this file")
	cexFlag := fs.Bool("cex", false, "replay the solver's counterexample of every refuted (sat) obligation on the real code")
	fs.Parse(args)
	if *jobs <= 0 {
		*jobs = 16
		if data, err := os.ReadFile("/proc/loadavg"); err == nil {
			var l1 float64
			fmt.Sscanf(string(data), "%f", &l1)
			if l1 > 12 {
				*jobs = 16 - int(l1-12)/2
				if *jobs < 3 {
					*jobs = 3
				}
			}
		}
	}
	prog, err := loadProgram(*repo)
	if err != nil {
		fmt.Fprintln(os.Stderr, "load:", err)
		return 2
	}
	for _, ce := range prog.ContractErrors {
		fmt.Println("CONTRACT FILE ERROR:", ce)
	}
	opts := &Options{Unroll: *unroll, Budget: *budget, Smoke: *smoke, Verbose: *verbose, Jobs: *jobs, DumpDir: *dump}
	var keys []string
	// implementations of interface methods are verified against the interface contract
	for k, fi := range prog.Funcs {
		if ct := contractFor(prog, fi); ct != nil && ct.Iface {
			prog.implContracts[k] = ct
		}
	}
	if *listImpl {
		var ks []string
		for k := range prog.implContracts {
			if prog.Contracts[k] == nil {
				ks = append(ks, k)
			}
		}
		sort.Strings(ks)
		for _, k := range ks {
			fmt.Println(k)
		}
		return 0
	}
	for k := range prog.implContracts {
		if *funcs == "" && prog.Contracts[k] == nil && !*allImpl {
			continue // unannotated implementations are verified on request only
		}
		if *funcs != "" {
			ok := false
			for _, f := range strings.Split(*funcs, ",") {
				if k == f || (!*exact && strings.HasPrefix(k, f) && prog.Contracts[k] != nil) || (strings.HasSuffix(f, "*") && strings.HasPrefix(k, strings.TrimSuffix(f, "*"))) {
					ok = true
				}
			}
			if !ok {
				continue
			}
		}
		keys = append(keys, k)
	}
	for k := range prog.Contracts {
		if prog.Contracts[k].Iface || prog.implContracts[k] != nil {
			continue
		}
		if *funcs != "" {
			ok := false
			for _, f := range strings.Split(*funcs, ",") {
				if k == f || (!*exact && strings.HasPrefix(k, f)) {
					ok = true
				}
			}
			if !ok {
				continue
			}
		}
		keys = append(keys, k)
	}
	sort.Strings(keys)
	bad := 0
	var all []*Obligation
	var results []*FuncResult
	for _, k := range keys {
		fi := prog.Funcs[k]
		if ic := prog.implContracts[k]; ic != nil {
			fr := verifyFunc(prog, fi, ic, opts)
			results = append(results, fr)
			all = append(all, fr.Obls...)
			continue
		}
		if prog.Contracts[k].Pure {
			fr := verifyPureLemma(prog, prog.Contracts[k], opts)
			results = append(results, fr)
			all = append(all, fr.Obls...)
			continue
		}
		if fi == nil {
			fmt.Printf("ORPHAN contract %s: no such function\n", k)
			bad++
			continue
		}
		fr := verifyFunc(prog, fi, prog.Contracts[k], opts)
		results = append(results, fr)
		all = append(all, fr.Obls...)
		if own, ic := refinementPair(prog, fi); own != nil {
			fr2 := verifyRefine(prog, fi, own, ic, opts)
			results = append(results, fr2)
			all = append(all, fr2.Obls...)
		}
	}
	discharge(all, opts)
	for _, fr := range results {
		n, ok := 0, 0
		for _, o := range fr.Obls {
			if o.Smoke {
				continue
			}
			n++
			if o.Res.Status == "unsat" {
				ok++
			}
		}
		status := "OK"
		if ok != n || len(fr.SpecErrors) > 0 || fr.Crashed != "" {
			status = "FAIL"
			bad++
		}
		if fr.Trusted {
			status = "TRUSTED"
		}
		fmt.Printf("%-7s %s  %d/%d obligations  gen %.2fs word=%v\n", status, fr.Key, ok, n, fr.GenTime, fr.WordMode)
		for _, s := range fr.SpecErrors {
			fmt.Println("    SPEC ERROR:", s)
		}
		if fr.Crashed != "" {
			fmt.Println("    CRASH:", fr.Crashed)
		}
		for _, s := range fr.Unsupported {
			fmt.Println("    unsupported:", s)
		}
		for _, s := range fr.Unrolled {
			fmt.Println("    bounded:", s)
		}
		if *verbose {
			for _, s := range fr.Assumptions {
				fmt.Println("    assumes:", s)
			}
			for _, s := range fr.Inlined {
				fmt.Println("    inlined:", s)
			}
		}
		for _, o := range fr.Obls {
			if o.Smoke {
				if o.Res.Status == "unsat" {
					fmt.Printf("    VACUOUS %s (%s): false derivable\n", o.Name, o.Pos)
					bad++
				}
				continue
			}
			if o.Res.Status != "unsat" || *verbose {
				b := ""
				if o.Bounded > 0 {
					b = fmt.Sprintf(" bounded(%d)", o.Bounded)
				}
				fmt.Printf("    %-8s %s [%s %.2fs]%s %s  -- %s\n", o.Res.Status, o.Name, o.Res.Solver, o.Res.Time, b, o.Pos, o.Desc)
				if *cexFlag && o.Res.Status == "sat" && !o.Smoke {
					cr := replayCounterexample(o, *repo)
					fmt.Printf("      replay: confirmed=%v %s%s\n      input: %s\n", cr.Confirmed, cr.Verdict, cr.Why, cr.Input)
					if os.Getenv("RVC_CEXSRC") != "" {
						fmt.Println(cr.TestSrc)
						fmt.Println(cr.Log)
					}
				}
				if o.Res.Status == "error" {
					fmt.Println("      ", strings.SplitN(o.Res.Output, "\n", 3)[0])
				}
			}
		}
	}
	if *jsonOut != "" {
		type oj struct {
			Name    string  `json:"name"`
			Func    string  `json:"func"`
			Kind    string  `json:"kind"`
			Tag     string  `json:"tag"`
			Status  string  `json:"status"`
			Solver  string  `json:"solver"`
			Time    float64 `json:"s"`
			Bounded int     `json:"bounded"`
			Desc    string  `json:"desc"`
			Pos     string  `json:"pos"`
		}
		type fj struct {
			Key         string   `json:"key"`
			Trusted     bool     `json:"trusted"`
			SpecErrors  []string `json:"spec_errors"`
			Crashed     string   `json:"crashed"`
			Unsupported []string `json:"unsupported"`
			Unrolled    []string `json:"unrolled"`
			Obls        []oj     `json:"obligations"`
		}
		var out []fj
		for _, fr := range results {
			f := fj{Key: fr.Key, Trusted: fr.Trusted, SpecErrors: fr.SpecErrors, Crashed: fr.Crashed, Unsupported: fr.Unsupported, Unrolled: fr.Unrolled}
			for _, o := range fr.Obls {
				if o.Smoke {
					continue
				}
				f.Obls = append(f.Obls, oj{o.Name, o.Func, o.Kind, o.Tag, o.Res.Status, o.Res.Solver, round2(o.Res.Time), o.Bounded, o.Desc, o.Pos})
			}
			out = append(out, f)
		}
		data, _ := json.MarshalIndent(out, "", " ")
		os.WriteFile(*jsonOut, data, 0o644)
	}
	if bad > 0 {
		return 1
	}
	return 0
}
