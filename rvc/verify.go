package main

// Per-function verification driver and the obligation discharger.

import (
	"fmt"
	"go/ast"
	"go/token"
	"go/types"
	"math/big"
	"os"
	"path/filepath"
	"regexp"
	"sort"
	"strings"
	"sync"
	"time"
)

type FuncResult struct {
	Key         string
	Obls        []*Obligation
	Assumptions []string
	Unsupported []string
	SpecErrors  []string
	Unrolled    []string
	Inlined     []string
	Trusted     bool
	WordMode    bool
	GenTime     float64
	Crashed     string
	UsedLemmas  []string
	Callees     []string
}

func (p *Program) srcCache(file string) ([]byte, bool) {
	srcMu.Lock()
	defer srcMu.Unlock()
	if d, ok := srcFiles[file]; ok {
		return d, true
	}
	d, err := os.ReadFile(file)
	if err != nil {
		return nil, false
	}
	srcFiles[file] = d
	return d, true
}

var srcFiles = map[string][]byte{}
var srcMu sync.Mutex

func newExec(prog *Program, fi *FuncInfo, ct *Contract, opts *Options) *Exec {
	e := &Exec{anchorPick: -1, prog: prog, fn: fi, pkgShort: pkgShort(fi.Pkg.PkgPath), info: fi.Pkg.TypesInfo, contract: ct, opts: opts,
		declared: map[string]bool{}, counters: map[string]int{}, dtSorts: map[string]bool{},
		assumptions: map[string]bool{}, inlined: map[string]bool{}, kindCodes: map[string]int{},
		boxed: map[types.Object]bool{}, heapMetas: map[string]heapMeta{}, defs: map[string]string{},
		freshRefs: map[string]bool{}, typeCache: map[string]types.Type{}, implCache: map[string][]types.Type{},
		entryVars: map[string]TV{}, atags: map[int]string{}, recInProgress: map[string]bool{}, recKeys: map[string][]string{}, actx: map[int]string{}, pcParents: map[string][]string{}, ctxPC: "true", calledContracts: map[string]bool{}}
	e.curPkg = fi
	return e
}

// usesWords decides the integer model of uint64 scalars for a function.
func usesWords(fi *FuncInfo, ct *Contract) bool {
	if ct != nil && ct.Mode == "word" {
		return true
	}
	if ct != nil && ct.Mode == "int" {
		return false
	}
	found := false
	info := fi.Pkg.TypesInfo
	ast.Inspect(fi.Decl, func(n ast.Node) bool {
		if x, ok := n.(*ast.SelectorExpr); ok {
			if id, ok := x.X.(*ast.Ident); ok && id.Name == "bits" {
				found = true
			}
		}
		if x, ok := n.(ast.Expr); ok {
			if tv, ok := info.Types[x]; ok && tv.Type != nil {
				if sl, ok := types.Unalias(tv.Type).Underlying().(*types.Slice); ok {
					if b, ok := sl.Elem().Underlying().(*types.Basic); ok && b.Kind() == types.Uint64 {
						found = true
					}
				}
			}
		}
		return !found
	})
	return found
}

func findBoxed(fi *FuncInfo) map[types.Object]bool {
	out := map[types.Object]bool{}
	info := fi.Pkg.TypesInfo
	// implicit address-of: pointer-receiver method called on an addressable struct variable
	ast.Inspect(fi.Decl, func(n ast.Node) bool {
		call, ok := n.(*ast.CallExpr)
		if !ok {
			return true
		}
		se, ok := unparen(call.Fun).(*ast.SelectorExpr)
		if !ok {
			return true
		}
		sel, ok := info.Selections[se]
		if !ok || sel.Kind() != types.MethodVal {
			return true
		}
		fn, ok := sel.Obj().(*types.Func)
		if !ok {
			return true
		}
		sig := fn.Type().(*types.Signature)
		if sig.Recv() == nil {
			return true
		}
		if _, wantPtr := sig.Recv().Type().Underlying().(*types.Pointer); !wantPtr {
			return true
		}
		if _, havePtr := types.Unalias(typeOfInfo(info, se.X)).Underlying().(*types.Pointer); havePtr {
			return true
		}
		if id, ok := unparen(se.X).(*ast.Ident); ok {
			if v, ok := info.ObjectOf(id).(*types.Var); ok && !v.IsField() && v.Pkg() != nil && v.Parent() != v.Pkg().Scope() {
				out[v] = true
			}
		}
		return true
	})
	ast.Inspect(fi.Decl, func(n ast.Node) bool {
		u, ok := n.(*ast.UnaryExpr)
		if !ok || u.Op != token.AND {
			return true
		}
		x := unparen(u.X)
		for {
			if s, ok := x.(*ast.SelectorExpr); ok {
				if _, isSel := info.Selections[s]; isSel {
					if _, isPtr := types.Unalias(typeOfInfo(info, s.X)).Underlying().(*types.Pointer); !isPtr {
						x = unparen(s.X)
						continue
					}
				}
			}
			break
		}
		if id, ok := x.(*ast.Ident); ok {
			if v, ok := info.ObjectOf(id).(*types.Var); ok && !v.IsField() && v.Pkg() != nil && v.Parent() != v.Pkg().Scope() {
				out[v] = true
			}
		}
		return true
	})
	return out
}

func typeOfInfo(info *types.Info, x ast.Expr) types.Type {
	if tv, ok := info.Types[x]; ok && tv.Type != nil {
		return tv.Type
	}
	if id, ok := x.(*ast.Ident); ok {
		if o := info.ObjectOf(id); o != nil {
			return o.Type()
		}
	}
	return types.Typ[types.Invalid]
}

func verifyFunc(prog *Program, fi *FuncInfo, ct *Contract, opts *Options) (fr *FuncResult) {
	t0 := time.Now()
	fr = &FuncResult{Key: fi.Key}
	e := newExec(prog, fi, ct, opts)
	defer func() {
		if r := recover(); r != nil {
			if se, ok := r.(specErr); ok {
				fr.SpecErrors = append(fr.SpecErrors, se.msg)
			} else {
				fr.Crashed = fmt.Sprint(r)
				if opts.Verbose {
					panic(r)
				}
			}
		}
		fr.Obls = e.obls
		for k := range e.assumptions {
			fr.Assumptions = append(fr.Assumptions, k)
		}
		sort.Strings(fr.Assumptions)
		fr.Unsupported = append(fr.Unsupported, e.unsupported...)
		fr.SpecErrors = append(fr.SpecErrors, e.specErrors...)
		fr.Unrolled = e.unrolled
		for k := range e.inlined {
			fr.Inlined = append(fr.Inlined, k)
		}
		sort.Strings(fr.Inlined)
		fr.WordMode = e.wordMode
		fr.UsedLemmas = e.usedLemmas
		for k := range e.calledContracts {
			fr.Callees = append(fr.Callees, k)
		}
		sort.Strings(fr.Callees)
		fr.GenTime = time.Since(t0).Seconds()
		for _, o := range fr.Obls {
			o.exec = e
		}
	}()
	if ct != nil && ct.Trusted != "" {
		fr.Trusted = true
		return
	}
	if fi.Decl.Body == nil {
		fr.Unsupported = append(fr.Unsupported, "no body (assembly / external)")
		return
	}
	e.wordMode = usesWords(fi, ct)
	e.boxed = findBoxed(fi)

	e.loopOrds = numberLoops(fi.Decl)
	e.declare("alloc!0", SInt)
	e.alloc0 = Term{"alloc!0", SInt}
	e.assumeGlobal(Ge(e.alloc0, IntLit(1)))
	if e.wordMode {
		e.needBitLib()
	}
	st := &State{vars: map[types.Object]Term{}, heap: map[string]Term{}, pc: True}
	fd := fi.Decl
	sig := fi.Obj.Type().(*types.Signature)
	bindParam := func(n *ast.Ident, isRecv bool) {
		obj := e.info.Defs[n]
		if obj == nil || n.Name == "_" {
			return
		}
		v := e.fresh(n.Name, e.varSort(obj))
		e.assumeGlobal(e.rangeFact(v, obj.Type()))
		e.assumeGlobal(e.allocFact(v, obj.Type(), e.alloc0))
		if isRecv {
			if _, isPtr := obj.Type().Underlying().(*types.Pointer); isPtr {
				e.assumeGlobal(Gt(v, IntLit(0)))
			}
		}
		e.entryVars[n.Name] = TV{v, obj.Type()}
		if vo, ok := obj.(*types.Var); ok && e.boxed[vo] {
			e.setVar(st, obj, v)
		} else {
			st.vars[obj] = v
		}
	}
	if fd.Recv != nil {
		for _, f := range fd.Recv.List {
			for _, n := range f.Names {
				bindParam(n, true)
			}
		}
	}
	for _, f := range fd.Type.Params.List {
		for _, n := range f.Names {
			bindParam(n, false)
		}
	}
	var resObjs []types.Object
	k := 0
	if fd.Type.Results != nil {
		for _, f := range fd.Type.Results.List {
			if len(f.Names) == 0 {
				o := types.NewVar(fd.Pos(), fi.Pkg.Types, fmt.Sprintf("_r%d", k), sig.Results().At(k).Type())
				resObjs = append(resObjs, o)
				st.vars[o] = e.zero(o.Type())
				k++
				continue
			}
			for _, n := range f.Names {
				o := e.info.Defs[n]
				resObjs = append(resObjs, o)
				if n.Name != "_" {
					e.setVar(st, o, e.zero(o.Type()))
				}
				k++
			}
		}
	}
	e.results = resObjs
	e.resStack = [][]types.Object{resObjs}
	if ct != nil && ct.Iface {
		e.bindIfaceNames(ct, fi)
	}
	e.entry = st.clone()
	e.specPos = fd.Body.Lbrace + 1
	if ct != nil {
		func() {
			defer e.catchSpec(fi.Key+" requires/modifies", fd.Pos())
			env := e.entryEnv(st)
			for _, r := range ct.Requires {
				e.assumeClause(st, r, env)
			}
			e.modRefs = e.modLocs(ct.Modifies, env)
		}()
	}
	if len(e.specErrors) > 0 {
		return
	}
	if ct != nil {
		for _, ln := range ct.Uses {
			e.useLemma(st, ln)
		}
	}
	e.entry = st.clone()
	e.syncCtx(e.ctxPC)
	e.bodyStart = len(e.assumps)
	out := e.execBlock(st, fd.Body.List)
	if !out.dead {
		e.checkPosts(out, fd.Body.Rbrace)
	}
	return
}

func (e *Exec) entryEnv(st *State) *SpecEnv {
	env := &SpecEnv{vars: map[string]TV{}, oldVars: e.entryVars, cur: st, old: e.entry, pkg: e.pkgShort, tpkg: e.fn.Pkg.Types}
	for k, v := range e.entryVars {
		env.vars[k] = v
	}
	return env
}

// checkPosts emits the postcondition obligations at a return point.
func (e *Exec) checkPosts(st *State, p token.Pos) {
	if e.depth > 0 {
		return
	}
	ret := e.counters["ret"]
	e.counters["ret"] = ret + 1
	if e.opts.Smoke && e.dry == 0 {
		e.obls = append(e.obls, &Obligation{Name: fmt.Sprintf("%s/smoke#%d", e.fn.Key, ret), Func: e.fn.Key, Kind: "smoke", NAssump: len(e.assumps), NDecl: len(e.decls),
			PC: st.pc, Goal: False, Desc: "vacuity: false must not be derivable at this return", Pos: e.pos(p), Smoke: true})
	}
	if e.contract == nil {
		return
	}
	defer e.catchSpec(e.fn.Key+" ensures", p)
	env := e.entryEnv(st)
	env.cur = st
	var res []TV
	for _, o := range e.results {
		var t Term
		if vo, ok := o.(*types.Var); ok && e.boxed[vo] {
			t = e.loadObject(st, o.Type(), st.vars[o])
		} else {
			t = st.vars[o]
		}
		res = append(res, TV{t, o.Type()})
	}
	_, _, rn := calleeNames(e.fn)
	for i, r := range res {
		env.vars[fmt.Sprintf("res%d", i)] = r
		if i < len(rn) && rn[i] != "" && rn[i] != "_" {
			env.vars[rn[i]] = r
		}
	}
	if len(res) > 0 {
		env.vars["res"] = res[0]
	}
	rp := &ReplayPoint{Results: res, Heap: map[string]Term{}}
	for hk, hv := range st.heap {
		rp.Heap[hk] = hv
	}
	for k, en := range e.contract.Ensures {
		g := e.specBool(st, en, env)
		e.pendingView = e.viewGoalOf(en, env, st)
		n0 := len(e.obls)
		e.obligeNamed(st, fmt.Sprintf("%s/post#%d@r%d", e.fn.Key, k, ret), "post", en.Tag, g, "postcondition: "+en.Src, p)
		for _, ob := range e.obls[n0:] {
			ob.Replay = rp
		}
	}
}

// ---------------------------------------------------------------------------
// discharging

func (o *Obligation) query() string { return o.queryWith(nil) }

func (o *Obligation) ancestors() map[string]bool {
	if o.anc == nil {
		o.anc = o.exec.pcAncestors(o.PC.S)
		for _, c := range o.Splits {
			for _, l := range c {
				for k := range o.exec.pcAncestors(l.S) {
					o.anc[k] = true
				}
			}
		}
	}
	return o.anc
}

// hasTagged reports whether premise selection would drop anything for this obligation.
func (o *Obligation) hasTagged() bool {
	for i, t := range o.exec.atags {
		if i < o.NAssump && !o.usesTag(t) {
			return true
		}
	}
	return false
}

// usesTag: a clause tagged "name:dep1,dep2" is proved from the untagged premises and those
// tagged name, dep1, dep2; a premise is filed under the name part of its own tag.
func (o *Obligation) usesTag(premiseTag string) bool {
	if premiseTag == "" {
		return true
	}
	if i := strings.IndexByte(premiseTag, ':'); i >= 0 {
		premiseTag = premiseTag[:i]
	}
	name, deps := o.Tag, ""
	if i := strings.IndexByte(name, ':'); i >= 0 {
		name, deps = o.Tag[:i], o.Tag[i+1:]
	}
	if premiseTag == name {
		return true
	}
	for _, d := range strings.Split(deps, ",") {
		if d == premiseTag {
			return true
		}
	}
	return false
}

// cases: one case per joined path.
func (o *Obligation) cases() [][]Term { return o.Splits }

func (o *Obligation) queryWith(extra []Term) string { return o.querySel(extra, false) }

var defRe = regexp.MustCompile(`^\(assert \(= ([A-Za-z_][A-Za-z0-9_.]*![0-9]+) `)

const predAxiomPrefix = "(assert (forall ((v!pred Int)) (! (= ("

// predAxiomName extracts the predicate symbol defined by a predicate-definition axiom ("" if a is none).
func predAxiomName(a string) string {
	if strings.HasPrefix(a, "(assert (= P_") {
		rest := a[len("(assert (= "):]
		return rest[:strings.IndexByte(rest, ' ')]
	}
	if strings.HasPrefix(a, "(assert (forall ((") {
		i := strings.Index(a, "(! (= (P_")
		if i < 0 || i > 200 {
			return ""
		}
		rest := a[i+len("(! (= ("):]
		return rest[:strings.IndexAny(rest, " )")]
	}
	return ""
}

func (o *Obligation) querySel(extra []Term, selectPremises bool) string {
	return o.queryFull(extra, selectPremises, false)
}

// queryFull builds the query. local: premises generated by code before the enclosing loop head are
// dropped, except preconditions, global axioms and the definitions of symbols the query mentions.
func (o *Obligation) queryFull(extra []Term, selectPremises bool, local bool) string {
	e := o.exec
	if o.Cut <= e.bodyStart {
		local = false
	}
	var deferred []int // candidate definitions from the dropped region
	var body strings.Builder
	var predAxioms []string
	included := map[int]bool{}
	anc := o.ancestors()
	for i, a := range e.assumps[:o.NAssump] {
		if selectPremises {
			if t := e.atags[i]; !o.usesTag(t) {
				continue
			}
		}
		// path slicing: premises introduced on a path that the obligation's path does not descend from
		if c, ok := e.actx[i]; ok && c != "true" && c != "" && !o.NoSlice {
			rel := false
			for _, p := range pcNameRe.FindAllString(c, -1) {
				if anc[p] {
					rel = true
					break
				}
			}
			if !rel && pcNameRe.MatchString(c) {
				continue
			}
		}
		if local && i >= e.bodyStart && i < o.Cut && e.actx[i] != "true" {
			if defRe.MatchString(a) {
				deferred = append(deferred, i)
			}
			continue
		}
		included[i] = true
		if predAxiomName(a) != "" {
			predAxioms = append(predAxioms, a)
			continue
		}
		body.WriteString(a)
		body.WriteByte('\n')
	}
	body.WriteString("(assert " + o.PC.S + ")\n")
	for _, x := range extra {
		body.WriteString("(assert " + x.S + ")\n")
	}
	if o.ViewGoal != "" {
		// set-extensionality style goal: prove the body at one skolem constant, with every
		// view-quantified premise instantiated at that constant (instances of premises: sound)
		sk := "v!sk"
		bar := strings.IndexByte(o.ViewGoal, '|')
		rng, goalBody := o.ViewGoal[:bar], o.ViewGoal[bar+1:]
		dd := strings.Index(rng, "..")
		lo, _ := new(big.Int).SetString(rng[:dd], 0)
		hi, _ := new(big.Int).SetString(rng[dd+2:], 0)
		body.WriteString(fmt.Sprintf("(declare-fun v!sk () Int)\n(assert (and (<= %s v!sk) (< v!sk %s)))\n", lo.String(), hi.String()))
		for _, vf := range e.viewFacts {
			if vf.at >= o.NAssump || !included[vf.at] || vf.rng != rng {
				continue
			}
			body.WriteString("(assert (=> " + vf.pc + " " + strings.ReplaceAll(vf.body, viewPH, sk) + "))\n")
		}
		body.WriteString("(assert (not " + strings.ReplaceAll(goalBody, viewPH, sk) + "))\n")
	} else {
		body.WriteString("(assert (not " + o.Goal.S + "))\n")
	}
	txt := body.String()
	if len(deferred) > 0 {
		// pull in the definitions of symbols that the query refers to (transitively)
		pulled := map[int]bool{}
		for changed := true; changed; {
			changed = false
			for k := len(deferred) - 1; k >= 0; k-- {
				i := deferred[k]
				if pulled[i] {
					continue
				}
				m := defRe.FindStringSubmatch(e.assumps[i])
				if m != nil && strings.Contains(txt, m[1]) {
					pulled[i] = true
					included[i] = true
					txt = e.assumps[i] + "\n" + txt
					changed = true
				}
			}
		}
	}
	// definitions of named set predicates: only those reachable from the obligation (cone of influence), together
	// with the bridges between instances (family bridges when both ends occur, join bridges as soon as the merged end occurs)
	{
		used := make([]bool, len(predAxioms))
		usedBr := make([]bool, len(e.predBridges))
		has := func(name string) bool {
			return strings.Contains(txt, "("+name+" ") || strings.Contains(txt, " "+name+")") || strings.Contains(txt, " "+name+" ")
		}
		for changed := true; changed; {
			changed = false
			for i, a := range predAxioms {
				if used[i] {
					continue
				}
				if has(predAxiomName(a)) {
					used[i] = true
					txt = a + "\n" + txt
					changed = true
				}
			}
			for i, br := range e.predBridges {
				if usedBr[i] || br.ndecl > o.NDecl {
					continue
				}
				if (br.join && has(br.from)) || (!br.join && has(br.from) && has(br.to)) {
					usedBr[i] = true
					txt = br.text + "\n" + txt
					changed = true
				}
			}
		}
	}
	var b strings.Builder
	b.WriteString(preludeCore)
	// function definitions are only included when something refers to them (cone of influence)
	var defs []string
	needed := map[int]bool{}
	for i, d := range e.decls[:o.NDecl] {
		if strings.HasPrefix(d, "(define-fun") {
			defs = append(defs, d)
			_ = i
		}
	}
	changed := true
	scope := txt
	for changed {
		changed = false
		for i, d := range defs {
			if needed[i] {
				continue
			}
			name := strings.Fields(d)[1]
			if strings.Contains(scope, "("+name+" ") {
				needed[i] = true
				scope += d
				changed = true
			}
		}
	}
	di := 0
	for _, d := range e.decls[:o.NDecl] {
		if strings.HasPrefix(d, "(define-fun") {
			if needed[di] {
				b.WriteString(d)
				b.WriteByte('\n')
			}
			di++
			continue
		}
		b.WriteString(d)
		b.WriteByte('\n')
	}
	b.WriteString(txt)
	return b.String()
}

func discharge(obls []*Obligation, opts *Options) {
	jobs := opts.Jobs
	if jobs <= 0 {
		jobs = 16
	}
	ch := make(chan *Obligation)
	var wg sync.WaitGroup
	for i := 0; i < jobs; i++ {
		wg.Add(1)
		go func() {
			defer wg.Done()
			for o := range ch {
				if o.Goal.S == "true" || o.PC.S == "false" {
					o.Res = SolverResult{Status: "unsat", Solver: "trivial"}
					continue
				}
				q := o.query()
				if opts.DumpDir != "" {
					os.MkdirAll(opts.DumpDir, 0o755)
					os.WriteFile(filepath.Join(opts.DumpDir, sanitize(o.Name)+".smt2"), []byte(z3Pre+q+"(check-sat)\n"), 0o644)
					os.WriteFile(filepath.Join(opts.DumpDir, sanitize(o.Name)+".sel.smt2"), []byte(z3Pre+o.querySel(nil, true)+"(check-sat)\n"), 0o644)
				}
				budget := opts.Budget
				if o.Smoke {
					budget = 2
					o.Res = runOneCtx("z3-new", q, budget)
					continue
				}
				o.Res = dischargeOne(o, budget)
			}
		}()
	}
	for _, o := range obls {
		ch <- o
	}
	close(ch)
	wg.Wait()
}

// dischargeOne tries, in order: premise selection on the whole obligation, premise selection
// per joined path, all premises on the whole obligation, all premises per joined path.
// Every variant is a sound weakening of the same obligation (fewer premises / case split).
func dischargeOne(o *Obligation, budget float64) SolverResult {
	short := budget / 3
	if short > 10 {
		short = 10
	}
	spent := 0.0
	cs := o.cases()
	try := func(sel bool, split bool, b float64, label string) (SolverResult, bool) {
		if !split {
			r := solve(o.querySel(nil, sel), b, false)
			spent += r.Time
			if r.Status == "unsat" {
				r.Solver += label
			}
			return r, r.Status == "unsat" || r.Status == "error" || (r.Status == "sat" && !sel)
		}
		var last SolverResult
		for _, c := range cs {
			r := solve(o.querySel(c, sel), b, false)
			spent += r.Time
			o.NSplit++
			last = r
			if os.Getenv("RVC_DEBUG") != "" {
				fmt.Fprintf(os.Stderr, "  split %s sel=%v case=%v -> %s %.2fs\n", o.Name, sel, c, r.Status, r.Time)
			}
			if r.Status != "unsat" {
				return r, r.Status == "error"
			}
		}
		last.Solver += label
		return last, true
	}
	var r SolverResult
	var done bool
	sel := o.hasTagged()
	if o.Cut > o.exec.bodyStart {
		// loop-local attempt: only the premises from the enclosing loop head onwards (+ preconditions, axioms, needed definitions)
		lr := solve(o.queryFull(nil, true, true), short, false)
		spent += lr.Time
		if lr.Status == "unsat" {
			lr.Solver += "+local"
			lr.Time = spent
			return lr
		}
	}
	if sel {
		if r, done = try(true, false, short, "+sel"); done {
			r.Time = spent
			return r
		}
		if len(cs) > 1 {
			if r, done = try(true, true, budget, "+sel+split"); done {
				r.Time = spent
				return r
			}
		}
	}
	b := budget
	if len(cs) > 1 {
		b = short
	}
	if r, done = try(false, false, b, ""); done {
		r.Time = spent
		return r
	}
	if len(cs) > 1 {
		r, _ = try(false, true, budget, "+split")
	}
	r.Time = spent
	return r
}

// useLemma adds the universally quantified closure of a lemma procedure's contract
// (forall parameters and heaps: requires ==> ensures) as a premise. The lemma procedure is
// itself verified (its obligations belong to every property that uses it).
func (e *Exec) useLemma(st *State, name string) {
	key := e.pkgShort + "." + name
	ct := e.prog.Contracts[key]
	fi := e.prog.Funcs[key]
	if ct == nil || (fi == nil && !ct.Pure) {
		key = "roaring." + name
		ct, fi = e.prog.Contracts[key], e.prog.Funcs[key]
	}
	if ct != nil && ct.Pure {
		e.usePureLemma(key, ct, false)
		return
	}
	if ct == nil || fi == nil || !ct.IsLemma {
		e.specErrors = append(e.specErrors, "use "+name+": no such lemma procedure")
		return
	}
	e.usedLemmas = append(e.usedLemmas, key)
	defer e.catchSpec("lemma "+name, fi.Decl.Pos())
	probe := []string{}
	pst := &State{vars: nil, heap: nil, pc: True, probe: &probe}
	env := &SpecEnv{vars: map[string]TV{}, oldVars: map[string]TV{}, cur: pst, old: pst, pkg: pkgShort(fi.Pkg.PkgPath), tpkg: fi.Pkg.Types}
	var binders []string
	var typeFacts []Term
	sig := fi.Obj.Type().(*types.Signature)
	_, pn, _ := calleeNames(fi)
	for i, n := range pn {
		pt := sig.Params().At(i).Type()
		ps := e.sortOf(pt)
		v := Term{"l!" + n, ps}
		env.vars[n] = TV{v, pt}
		binders = append(binders, fmt.Sprintf("(l!%s %s)", n, ps))
		typeFacts = append(typeFacts, e.rangeFact(v, pt))
	}
	var pre, post []Term
	for _, r := range ct.Requires {
		pre = append(pre, e.specBool(pst, r, env))
	}
	for _, en := range ct.Ensures {
		post = append(post, e.specBool(pst, en, env))
	}
	var pats []string
	for _, g := range ct.Triggers {
		var ts []string
		for _, t := range g {
			ts = append(ts, e.specTerm(pst, t, env).S)
		}
		pats = append(pats, ":pattern ("+strings.Join(ts, " ")+")")
	}
	sort.Strings(probe)
	for _, k := range probe {
		binders = append(binders, fmt.Sprintf("(hp!%s %s)", k, e.heapMetas[k].sort))
	}
	body := Implies(And(append(typeFacts, pre...)...), And(post...))
	txt := fmt.Sprintf("(assert (forall (%s) (! %s %s)))", strings.Join(binders, " "), body.S, strings.Join(pats, " "))
	if len(pats) == 0 {
		txt = fmt.Sprintf("(assert (forall (%s) %s))", strings.Join(binders, " "), body.S)
	}
	e.globalAxiom(txt)
	e.atags[len(e.assumps)-1] = name
	e.note("lemma", fmt.Sprintf("closure of lemma procedure %s used as a premise (the procedure is verified by induction in the same run)", key))
}

// pureLemmaParts translates a pure lemma (no Go code): binders, precondition, conclusion, measure, patterns.
func (e *Exec) pureLemmaParts(ct *Contract, prefix string) (binders []string, vars []Term, pre, post Term, measure Term, pats []string) {
	tpkg := e.prog.Pkgs[ct.Pkg].Types
	pst := &State{vars: nil, heap: map[string]Term{}, pc: True}
	env := &SpecEnv{vars: map[string]TV{}, oldVars: map[string]TV{}, cur: pst, old: pst, pkg: ct.Pkg, tpkg: tpkg}
	var typeFacts []Term
	for _, p := range ct.PureParams {
		pt := e.resolveType(tpkg, p.Type)
		ps := e.sortOf(pt)
		if at, ok := pt.Underlying().(*types.Array); ok {
			ps = ArraySort(SInt, e.elemSort(at.Elem()))
		} else if b, ok := pt.Underlying().(*types.Basic); ok && b.Kind() == types.Uint64 {
			ps = SBV64
		}
		v := Term{prefix + p.Name, ps}
		env.vars[p.Name] = TV{v, pt}
		binders = append(binders, fmt.Sprintf("(%s%s %s)", prefix, p.Name, ps))
		vars = append(vars, v)
		if ps == SInt {
			typeFacts = append(typeFacts, e.rangeFact(v, pt))
		}
	}
	var pres, posts []Term
	for _, r := range ct.Requires {
		pres = append(pres, e.specBool(pst, r, env))
	}
	for _, en := range ct.Ensures {
		posts = append(posts, e.specBool(pst, en, env))
	}
	for _, g := range ct.Triggers {
		var ts []string
		for _, t := range g {
			ts = append(ts, e.specTerm(pst, t, env).S)
		}
		pats = append(pats, ":pattern ("+strings.Join(ts, " ")+")")
	}
	measure = IntLit(0)
	if ct.Decreases != nil {
		measure = e.specTerm(pst, *ct.Decreases, env)
	}
	return binders, vars, And(append(typeFacts, pres...)...), And(posts...), measure, pats
}

// usePureLemma adds the closure of a pure lemma as a premise (smallerThan non-empty: only for
// instances of smaller measure, i.e. the induction hypothesis).
func (e *Exec) usePureLemma(key string, ct *Contract, asIH bool) {
	defer e.catchSpec("purelemma "+key, 0)
	binders, _, pre, post, _, pats := e.pureLemmaParts(ct, "l!")
	txt := fmt.Sprintf("(assert (forall (%s) (! %s %s)))", strings.Join(binders, " "), Implies(pre, post).S, strings.Join(pats, " "))
	if len(pats) == 0 {
		txt = fmt.Sprintf("(assert (forall (%s) %s))", strings.Join(binders, " "), Implies(pre, post).S)
	}
	e.globalAxiom(txt)
	name := key[strings.IndexByte(key, '.')+1:]
	e.atags[len(e.assumps)-1] = name
	e.usedLemmas = append(e.usedLemmas, key)
	e.note("lemma", fmt.Sprintf("pure lemma %s used as a premise (proved by induction on its measure in the same run)", key))
}

// verifyPureLemma generates the induction obligation of a pure lemma:
//
//	(forall y. 0 <= m(y) < m(x) && pre(y) ==> post(y))  &&  pre(x)  ==>  post(x)   and   m(x) >= 0.
func verifyPureLemma(prog *Program, ct *Contract, opts *Options) (fr *FuncResult) {
	t0 := time.Now()
	fr = &FuncResult{Key: ct.Key}
	fi := &FuncInfo{Key: ct.Key, Pkg: prog.Pkgs[ct.Pkg]}
	e := newExec(prog, fi, ct, opts)
	e.wordMode = true
	e.revealOpaque = true
	defer func() {
		if r := recover(); r != nil {
			if se, ok := r.(specErr); ok {
				fr.SpecErrors = append(fr.SpecErrors, se.msg)
			} else {
				fr.Crashed = fmt.Sprint(r)
			}
		}
		fr.Obls = e.obls
		fr.SpecErrors = append(fr.SpecErrors, e.specErrors...)
		for k := range e.assumptions {
			fr.Assumptions = append(fr.Assumptions, k)
		}
		fr.UsedLemmas = e.usedLemmas
		for k := range e.calledContracts {
			fr.Callees = append(fr.Callees, k)
		}
		sort.Strings(fr.Callees)
		fr.GenTime = time.Since(t0).Seconds()
		for _, o := range fr.Obls {
			o.exec = e
		}
	}()
	e.declare("alloc!0", SInt)
	e.alloc0 = Term{"alloc!0", SInt}
	for _, ln := range ct.Uses {
		k := ct.Pkg + "." + ln
		if c2 := prog.Contracts[k]; c2 != nil && c2.Pure {
			e.usePureLemma(k, c2, false)
		} else {
			e.specErrors = append(e.specErrors, "purelemma: use "+ln+": only pure lemmas can be used here")
		}
	}
	// induction hypothesis
	bIH, _, preIH, postIH, mIH, patsIH := e.pureLemmaParts(ct, "y!")
	binders, vars, pre, post, m, _ := e.pureLemmaParts(ct, "x!")
	for i, v := range vars {
		_ = i
		e.declare(v.S, v.Sort)
	}
	_ = binders
	ih := Implies(And(Le(IntLit(0), mIH), Lt(mIH, m), preIH), postIH)
	txt := fmt.Sprintf("(assert (forall (%s) (! %s %s)))", strings.Join(bIH, " "), ih.S, strings.Join(patsIH, " "))
	if len(patsIH) == 0 {
		txt = fmt.Sprintf("(assert (forall (%s) %s))", strings.Join(bIH, " "), ih.S)
	}
	e.globalAxiom(txt)
	st := &State{vars: nil, heap: map[string]Term{}, pc: True}
	e.assume(st, pre)
	e.obligeNamed(st, ct.Key+"/post#0", "post", "", post, "pure lemma by induction on its measure", 0)
	return
}

// bindIfaceNames: when a method implementation is verified against the contract of the
// interface method, the contract's names (this, a0.., and the interface's own parameter names)
// denote the implementation's receiver and parameters.
func (e *Exec) bindIfaceNames(ct *Contract, fi *FuncInfo) {
	fd := fi.Decl
	parts := strings.Split(ct.Key, ".")
	if len(parts) != 3 {
		return
	}
	pkg := e.prog.Pkgs[parts[0]]
	if pkg == nil {
		return
	}
	tn, _ := pkg.Types.Scope().Lookup(parts[1]).(*types.TypeName)
	if tn == nil {
		return
	}
	it, ok := tn.Type().Underlying().(*types.Interface)
	if !ok {
		return
	}
	var m *types.Func
	for i := 0; i < it.NumMethods(); i++ {
		if it.Method(i).Name() == parts[2] {
			m = it.Method(i)
		}
	}
	if m == nil {
		return
	}
	if fd.Recv != nil && len(fd.Recv.List) > 0 && len(fd.Recv.List[0].Names) > 0 {
		rn := fd.Recv.List[0].Names[0].Name
		if rv, ok := e.entryVars[rn]; ok {
			e.entryVars["this"] = TV{MkCont(IntLit(int64(e.kindCode(rv.Ty))), rv.T), tn.Type()}
		}
	}
	_, pn, _ := calleeNames(fi)
	sig := m.Type().(*types.Signature)
	for i, n := range pn {
		v, ok := e.entryVars[n]
		if !ok {
			continue
		}
		e.entryVars[fmt.Sprintf("a%d", i)] = v
		if i < sig.Params().Len() && sig.Params().At(i).Name() != "" {
			if _, clash := e.entryVars[sig.Params().At(i).Name()]; !clash {
				e.entryVars[sig.Params().At(i).Name()] = v
			}
		}
	}
}

// contractFor returns the contract a function is verified against: its own, or the contract
// of the interface method it implements.
func contractFor(prog *Program, fi *FuncInfo) *Contract {
	own := prog.Contracts[fi.Key]
	if own != nil && (len(own.Requires) > 0 || len(own.Ensures) > 0 || own.ModGiven || own.Trusted != "" || own.IsLemma) {
		return own
	}
	if ic := ifaceContractFor(prog, fi); ic != nil {
		if own == nil {
			return ic
		}
		// annotations only (loop invariants, lemmas, numeric variables): merged with the interface contract
		m := *ic
		m.Loops = own.Loops
		m.Uses = append(append([]string(nil), ic.Uses...), own.Uses...)
		m.Ints = append(append([]string(nil), ic.Ints...), own.Ints...)
		m.Mode = own.Mode
		m.Panics = own.Panics
		m.Hints = own.Hints
		return &m
	}
	return own
}

func ifaceContractFor(prog *Program, fi *FuncInfo) *Contract {
	if fi.Obj == nil {
		return nil
	}
	sig := fi.Obj.Type().(*types.Signature)
	if sig.Recv() == nil {
		return nil
	}
	rt := sig.Recv().Type()
	if _, isPtr := rt.(*types.Pointer); !isPtr {
		rt = types.NewPointer(rt)
	}
	// deterministic choice when several interface contracts match: sorted by key (callers through another matching
	// interface see that interface's own contract; the implementation is checked against the first)
	var keys []string
	for key, ct := range prog.Contracts {
		if ct.Iface {
			keys = append(keys, key)
		}
	}
	sort.Strings(keys)
	var first *Contract
	for _, key := range keys {
		ct := prog.Contracts[key]
		parts := strings.Split(key, ".")
		if len(parts) != 3 || parts[2] != fi.Decl.Name.Name {
			continue
		}
		pkg := prog.Pkgs[parts[0]]
		if pkg == nil {
			continue
		}
		tn, _ := pkg.Types.Scope().Lookup(parts[1]).(*types.TypeName)
		if tn == nil {
			continue
		}
		if it, ok := tn.Type().Underlying().(*types.Interface); ok && types.Implements(rt, it) {
			if first == nil {
				first = ct
				continue
			}
			// a second interface contract for the same method: callers through that interface rely on it, but the
			// implementation is verified against the first only - so the two must say the same
			if contractText(first) != contractText(ct) {
				msg := fmt.Sprintf("%s implements both %s and %s, whose contracts for %s differ: they must be textually identical", fi.Key, first.Key, ct.Key, fi.Decl.Name.Name)
				dup := false
				for _, m := range prog.ContractErrors {
					if m == msg {
						dup = true
					}
				}
				if !dup {
					prog.ContractErrors = append(prog.ContractErrors, msg)
				}
			}
		}
	}
	return first
}

func contractText(ct *Contract) string {
	var b strings.Builder
	for _, c := range ct.Requires {
		b.WriteString("R:" + strings.Join(strings.Fields(c.Src), " ") + "\n")
	}
	for _, c := range ct.Ensures {
		b.WriteString("E:" + strings.Join(strings.Fields(c.Src), " ") + "\n")
	}
	for _, c := range ct.Modifies {
		b.WriteString("M:" + strings.Join(strings.Fields(c.Src), " ") + "\n")
	}
	return b.String()
}

// verifyRefine checks that a method's own contract refines the contract of the interface method
// it implements (so that dynamic callers, who only know the interface contract, are served):
// under the interface precondition the own precondition holds, and the own postcondition and
// frame give the interface postcondition. Technically: the stub "return recv.m(args)" is verified
// against the interface contract, the call being replaced by the own contract.
func verifyRefine(prog *Program, fi *FuncInfo, own, iface *Contract, opts *Options) (fr *FuncResult) {
	t0 := time.Now()
	key := fi.Key + "#refines"
	fr = &FuncResult{Key: key}
	fi2 := *fi
	fi2.Key = key
	e := newExec(prog, &fi2, iface, opts)
	defer func() {
		if r := recover(); r != nil {
			if se, ok := r.(specErr); ok {
				fr.SpecErrors = append(fr.SpecErrors, se.msg)
			} else {
				fr.Crashed = fmt.Sprint(r)
			}
		}
		fr.Obls = e.obls
		fr.SpecErrors = append(fr.SpecErrors, e.specErrors...)
		for k := range e.assumptions {
			fr.Assumptions = append(fr.Assumptions, k)
		}
		fr.UsedLemmas = e.usedLemmas
		fr.GenTime = time.Since(t0).Seconds()
		for _, o := range fr.Obls {
			o.exec = e
		}
	}()
	e.wordMode = usesWords(fi, own)
	e.declare("alloc!0", SInt)
	e.alloc0 = Term{"alloc!0", SInt}
	e.assumeGlobal(Ge(e.alloc0, IntLit(1)))
	if e.wordMode {
		e.needBitLib()
	}
	st := &State{vars: map[types.Object]Term{}, heap: map[string]Term{}, pc: True}
	fd := fi.Decl
	sig := fi.Obj.Type().(*types.Signature)
	var recv *TV
	var args []TV
	bind := func(n *ast.Ident, isRecv bool) {
		obj := e.info.Defs[n]
		if obj == nil {
			return
		}
		v := e.fresh(n.Name, e.sortOf(obj.Type()))
		e.assumeGlobal(e.rangeFact(v, obj.Type()))
		e.assumeGlobal(e.allocFact(v, obj.Type(), e.alloc0))
		if isRecv {
			e.assumeGlobal(Gt(v, IntLit(0)))
			recv = &TV{v, obj.Type()}
		} else {
			args = append(args, TV{v, obj.Type()})
		}
		e.entryVars[n.Name] = TV{v, obj.Type()}
		st.vars[obj] = v
	}
	if fd.Recv != nil {
		for _, f := range fd.Recv.List {
			for _, n := range f.Names {
				bind(n, true)
			}
		}
	}
	for _, f := range fd.Type.Params.List {
		for _, n := range f.Names {
			bind(n, false)
		}
	}
	var resObjs []types.Object
	for k := 0; k < sig.Results().Len(); k++ {
		o := types.NewVar(fd.Pos(), fi.Pkg.Types, fmt.Sprintf("_r%d", k), sig.Results().At(k).Type())
		resObjs = append(resObjs, o)
		st.vars[o] = e.zero(o.Type())
	}
	e.results = resObjs
	e.resStack = [][]types.Object{resObjs}
	e.bindIfaceNames(iface, fi)
	e.entry = st.clone()
	func() {
		defer e.catchSpec(key+" requires/modifies", fd.Pos())
		env := e.entryEnv(st)
		for _, r := range iface.Requires {
			e.assumeClause(st, r, env)
		}
		e.modRefs = e.modLocs(iface.Modifies, env)
	}()
	if len(e.specErrors) > 0 {
		return
	}
	for _, ln := range append(append([]string(nil), own.Uses...), iface.Uses...) {
		e.useLemma(st, ln)
	}
	e.entry = st.clone()
	outs := e.applyContract(st, nil, fi, own, recv, args)
	for i, o := range resObjs {
		if i < len(outs) {
			st.vars[o] = outs[i]
		}
	}
	e.checkPosts(st, fd.Pos())
	return
}

// refinementPair returns (own, iface) when a method has a full own contract and also implements
// an interface method under contract.
func refinementPair(prog *Program, fi *FuncInfo) (*Contract, *Contract) {
	own := prog.Contracts[fi.Key]
	if own == nil || !(len(own.Requires) > 0 || len(own.Ensures) > 0 || own.ModGiven) || own.Trusted != "" || own.IsLemma {
		return nil, nil
	}
	ic := ifaceContractFor(prog, fi)
	if ic == nil {
		return nil, nil
	}
	return own, ic
}
