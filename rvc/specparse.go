package main

// Parser of the contract expression language: Go expressions extended with
//   forall i in lo..hi :: P     exists i in lo..hi :: P
//   forall x T :: P             (typed, ranges over the whole type)
//   P ==> Q    P <==> Q         old(e)   res / res0 res1 ...
//   x.(*T)  (downcast of a container value)   typeis(c, T)

import (
	"fmt"
	"strings"
	"unicode"
)

type SExpr interface{ sexpr() }

type (
	SIdent struct{ Name string }
	SLit   struct {
		Val  string
		Bool bool // true/false literal
	}
	SBin struct {
		Op   string
		L, R SExpr
	}
	SUn struct {
		Op string
		X  SExpr
	}
	SCall struct {
		Fun  string
		Args []SExpr
	}
	SIndex struct{ X, I SExpr }
	SSliceE struct{ X, Lo, Hi SExpr }
	SField struct {
		X    SExpr
		Name string
	}
	SQuant struct {
		Forall bool
		Var    string
		Type   string // "" when ranged
		Lo, Hi SExpr
		Body   SExpr
	}
	SOld    struct{ X SExpr }
	SAssert struct {
		X    SExpr
		Type string
	}
)

func (*SIdent) sexpr()  {}
func (*SLit) sexpr()    {}
func (*SBin) sexpr()    {}
func (*SUn) sexpr()     {}
func (*SCall) sexpr()   {}
func (*SIndex) sexpr()  {}
func (*SSliceE) sexpr() {}
func (*SField) sexpr()  {}
func (*SQuant) sexpr()  {}
func (*SOld) sexpr()    {}
func (*SAssert) sexpr() {}

type tok struct {
	kind string // id num op eof
	s    string
}

func lexSpec(src string) ([]tok, error) {
	var out []tok
	i := 0
	ops := []string{"<==>", "==>", "&^", "<<", ">>", "&&", "||", "==", "!=", "<=", ">=", "::", "..",
		"+", "-", "*", "/", "%", "&", "|", "^", "<", ">", "!", "(", ")", "[", "]", ",", ".", ":", "?"}
	for i < len(src) {
		c := rune(src[i])
		if unicode.IsSpace(c) {
			i++
			continue
		}
		if unicode.IsLetter(c) || c == '_' {
			j := i
			for j < len(src) && (unicode.IsLetter(rune(src[j])) || unicode.IsDigit(rune(src[j])) || src[j] == '_' || src[j] == '$') {
				j++
			}
			out = append(out, tok{"id", src[i:j]})
			i = j
			continue
		}
		if unicode.IsDigit(c) {
			j := i
			for j < len(src) && (unicode.IsDigit(rune(src[j])) || unicode.IsLetter(rune(src[j])) || src[j] == '_') {
				j++
			}
			out = append(out, tok{"num", strings.ReplaceAll(src[i:j], "_", "")})
			i = j
			continue
		}
		matched := false
		for _, op := range ops {
			if strings.HasPrefix(src[i:], op) {
				// ".." vs "." : ops ordered so ".." first
				out = append(out, tok{"op", op})
				i += len(op)
				matched = true
				break
			}
		}
		if !matched {
			return nil, fmt.Errorf("spec lexer: unexpected %q in %q", string(c), src)
		}
	}
	out = append(out, tok{"eof", ""})
	return out, nil
}

type sparser struct {
	toks []tok
	p    int
	src  string
}

func parseSpec(src string) (e SExpr, err error) {
	toks, err := lexSpec(src)
	if err != nil {
		return nil, err
	}
	ps := &sparser{toks: toks, src: src}
	defer func() {
		if r := recover(); r != nil {
			if pe, ok := r.(parseErr); ok {
				err = fmt.Errorf("spec parse error: %s in %q", string(pe), src)
				return
			}
			panic(r)
		}
	}()
	e = ps.expr()
	if ps.peek().kind != "eof" {
		ps.fail("trailing input at " + ps.peek().s)
	}
	return e, nil
}

type parseErr string

func (ps *sparser) fail(m string) { panic(parseErr(m)) }
func (ps *sparser) peek() tok     { return ps.toks[ps.p] }
func (ps *sparser) next() tok     { t := ps.toks[ps.p]; ps.p++; return t }
func (ps *sparser) isOp(s string) bool {
	t := ps.peek()
	return t.kind == "op" && t.s == s
}
func (ps *sparser) expect(s string) {
	if !ps.isOp(s) {
		ps.fail("expected " + s + " got " + ps.peek().s)
	}
	ps.p++
}

func (ps *sparser) expr() SExpr { return ps.iff() }

func (ps *sparser) iff() SExpr {
	l := ps.imp()
	for ps.isOp("<==>") {
		ps.p++
		r := ps.imp()
		l = &SBin{"<==>", l, r}
	}
	return l
}
func (ps *sparser) imp() SExpr {
	l := ps.or()
	if ps.isOp("==>") {
		ps.p++
		r := ps.imp() // right assoc
		return &SBin{"==>", l, r}
	}
	return l
}
func (ps *sparser) or() SExpr {
	l := ps.and()
	for ps.isOp("||") {
		ps.p++
		r := ps.and()
		l = &SBin{"||", l, r}
	}
	return l
}
func (ps *sparser) and() SExpr {
	l := ps.cmp()
	for ps.isOp("&&") {
		ps.p++
		r := ps.cmp()
		l = &SBin{"&&", l, r}
	}
	return l
}
func (ps *sparser) cmp() SExpr {
	l := ps.addE()
	for {
		t := ps.peek()
		if t.kind == "op" && (t.s == "==" || t.s == "!=" || t.s == "<" || t.s == "<=" || t.s == ">" || t.s == ">=") {
			ps.p++
			r := ps.addE()
			l = &SBin{t.s, l, r}
			continue
		}
		return l
	}
}
func (ps *sparser) addE() SExpr {
	l := ps.mulE()
	for {
		t := ps.peek()
		if t.kind == "op" && (t.s == "+" || t.s == "-" || t.s == "|" || t.s == "^") {
			ps.p++
			r := ps.mulE()
			l = &SBin{t.s, l, r}
			continue
		}
		return l
	}
}
func (ps *sparser) mulE() SExpr {
	l := ps.unary()
	for {
		t := ps.peek()
		if t.kind == "op" && (t.s == "*" || t.s == "/" || t.s == "%" || t.s == "<<" || t.s == ">>" || t.s == "&" || t.s == "&^") {
			ps.p++
			r := ps.unary()
			l = &SBin{t.s, l, r}
			continue
		}
		return l
	}
}
func (ps *sparser) unary() SExpr {
	t := ps.peek()
	if t.kind == "op" && (t.s == "!" || t.s == "-" || t.s == "^" || t.s == "*") {
		ps.p++
		x := ps.unary()
		return &SUn{t.s, x}
	}
	if t.kind == "id" && (t.s == "forall" || t.s == "exists") {
		ps.p++
		v := ps.next()
		if v.kind != "id" {
			ps.fail("quantifier variable expected")
		}
		q := &SQuant{Forall: t.s == "forall", Var: v.s}
		n := ps.peek()
		if n.kind == "id" && n.s == "in" {
			ps.p++
			q.Lo = ps.addE()
			ps.expect("..")
			q.Hi = ps.addE()
		} else if n.kind == "id" {
			ps.p++
			q.Type = n.s
		} else {
			ps.fail("quantifier: expected 'in' or a type")
		}
		ps.expect("::")
		q.Body = ps.expr()
		return q
	}
	return ps.postfix()
}
func (ps *sparser) postfix() SExpr {
	x := ps.primary()
	for {
		switch {
		case ps.isOp("["):
			ps.p++
			var lo SExpr
			if !ps.isOp(":") {
				lo = ps.expr()
			}
			if ps.isOp(":") {
				ps.p++
				var hi SExpr
				if !ps.isOp("]") {
					hi = ps.expr()
				}
				ps.expect("]")
				x = &SSliceE{x, lo, hi}
			} else {
				ps.expect("]")
				x = &SIndex{x, lo}
			}
		case ps.isOp("."):
			ps.p++
			if ps.isOp("(") {
				ps.p++
				ty := ""
				if ps.isOp("*") {
					ps.p++
				}
				n := ps.next()
				if n.kind != "id" {
					ps.fail("type name expected in assertion")
				}
				ty = n.s
				ps.expect(")")
				x = &SAssert{x, ty}
			} else {
				n := ps.next()
				if n.kind != "id" {
					ps.fail("field name expected")
				}
				x = &SField{x, n.s}
			}
		default:
			return x
		}
	}
}
func (ps *sparser) primary() SExpr {
	t := ps.next()
	switch t.kind {
	case "num":
		return &SLit{Val: t.s}
	case "id":
		if t.s == "true" || t.s == "false" {
			return &SLit{Val: t.s, Bool: true}
		}
		if ps.isOp("(") {
			ps.p++
			var args []SExpr
			for !ps.isOp(")") {
				// allow a type name with * as the type argument of typeis / anyelems / anyfield (elsewhere * is a dereference)
				if ps.isOp("*") && (t.s == "typeis" || t.s == "anyelems" || t.s == "anyfield") {
					ps.p++
				}
				args = append(args, ps.expr())
				if ps.isOp(",") {
					ps.p++
				}
			}
			ps.expect(")")
			if t.s == "old" {
				if len(args) != 1 {
					ps.fail("old takes one argument")
				}
				return &SOld{args[0]}
			}
			return &SCall{t.s, args}
		}
		return &SIdent{t.s}
	case "op":
		if t.s == "(" {
			e := ps.expr()
			ps.expect(")")
			return e
		}
	}
	ps.fail("unexpected token " + t.s)
	return nil
}

// ---------------------------------------------------------------------------
// printing (used in evidence samples and error messages)

func specString(e SExpr) string {
	switch x := e.(type) {
	case *SIdent:
		return x.Name
	case *SLit:
		return x.Val
	case *SBin:
		return "(" + specString(x.L) + " " + x.Op + " " + specString(x.R) + ")"
	case *SUn:
		return x.Op + specString(x.X)
	case *SCall:
		var a []string
		for _, y := range x.Args {
			a = append(a, specString(y))
		}
		return x.Fun + "(" + strings.Join(a, ", ") + ")"
	case *SIndex:
		return specString(x.X) + "[" + specString(x.I) + "]"
	case *SSliceE:
		lo, hi := "", ""
		if x.Lo != nil {
			lo = specString(x.Lo)
		}
		if x.Hi != nil {
			hi = specString(x.Hi)
		}
		return specString(x.X) + "[" + lo + ":" + hi + "]"
	case *SField:
		return specString(x.X) + "." + x.Name
	case *SQuant:
		k := "exists"
		if x.Forall {
			k = "forall"
		}
		if x.Type != "" {
			return k + " " + x.Var + " " + x.Type + " :: " + specString(x.Body)
		}
		return k + " " + x.Var + " in " + specString(x.Lo) + ".." + specString(x.Hi) + " :: " + specString(x.Body)
	case *SOld:
		return "old(" + specString(x.X) + ")"
	case *SAssert:
		return specString(x.X) + ".(*" + x.Type + ")"
	}
	return "?"
}
