package main

// Translation of contract expressions to SMT terms in a given environment
// (variable bindings + current heap + old heap).

import (
	"crypto/sha256"
	"fmt"
	"go/token"
	"go/types"
	"math/big"
	"os"
	"regexp"
	"sort"
	"strconv"
	"strings"
)

type TV struct {
	T  Term
	Ty types.Type
}

type SpecEnv struct {
	vars     map[string]TV
	oldVars  map[string]TV
	scopeSt  *State    // identifiers not in vars are resolved in the Go scope at scopePos against this state
	scopePos token.Pos // position used for scope lookup (0: none)
	cur      *State
	old      *State
	pkg      string // short package name for spec function lookup
	tpkg     *types.Package
	depth    int
	inOld    bool
}

// array values (the contents of a backing array as a mathematical map from address to element)
var arr64T types.Type = types.NewArray(types.Typ[types.Uint64], 1<<40)
var arr16T types.Type = types.NewArray(types.Typ[types.Uint16], 1<<40)
var arr32T types.Type = types.NewArray(types.Typ[types.Uint32], 1<<40)

var specInt types.Type = types.Typ[types.Int]
var specBoolT types.Type = types.Typ[types.Bool]
var specWord types.Type = types.Typ[types.Uint64]

type specErr struct{ msg string }

func (e *Exec) specFail(format string, a ...interface{}) {
	panic(specErr{fmt.Sprintf(format, a...)})
}

func (env *SpecEnv) with(name string, v TV) *SpecEnv {
	n := *env
	n.vars = make(map[string]TV, len(env.vars)+1)
	for k, x := range env.vars {
		n.vars[k] = x
	}
	n.vars[name] = v
	return &n
}

// resolveType resolves a type name written in a contract.
func (e *Exec) resolveType(tpkg *types.Package, s string) types.Type {
	s = strings.TrimSpace(s)
	key := tpkg.Path() + "::" + s
	if t, ok := e.typeCache[key]; ok {
		return t
	}
	switch s {
	case "arr64":
		return arr64T
	case "arr16":
		return arr16T
	case "arr32":
		return arr32T
	}
	tv, err := types.Eval(e.prog.Fset, tpkg, token.NoPos, s)
	if err != nil || tv.Type == nil {
		// types of the root package are visible from every package's contracts
		if root := e.prog.Pkgs["roaring"]; root != nil && root.Types != tpkg {
			tv, err = types.Eval(e.prog.Fset, root.Types, token.NoPos, s)
		}
	}
	if err != nil || tv.Type == nil {
		e.specFail("cannot resolve type %q: %v", s, err)
	}
	e.typeCache[key] = tv.Type
	return tv.Type
}

// lookupIdent resolves an identifier of a contract expression.
func (e *Exec) lookupIdent(env *SpecEnv, name string) (TV, bool) {
	if v, ok := env.vars[name]; ok {
		if env.inOld {
			if ov, ok2 := env.oldVars[name]; ok2 {
				return ov, true
			}
		}
		return v, true
	}
	if env.inOld {
		if ov, ok := env.oldVars[name]; ok {
			return ov, true
		}
	}
	for i := len(e.synth) - 1; i >= 0; i-- {
		if e.synth[i].Name() == name && env.scopeSt != nil {
			if t, ok := env.scopeSt.vars[e.synth[i]]; ok {
				return TV{t, e.synth[i].Type()}, true
			}
		}
	}
	for i := len(e.synthAlias) - 1; i >= 0; i-- {
		if e.synthAlias[i].name == name && env.scopeSt != nil {
			if t, ok := env.scopeSt.vars[e.synthAlias[i].ctr]; ok {
				return TV{t, e.synthAlias[i].ctr.Type()}, true
			}
		}
	}
	if env.scopeSt != nil && env.scopePos.IsValid() {
		if sc := e.innermostScope(env.scopePos); sc != nil {
			if _, obj := sc.LookupParent(name, env.scopePos); obj != nil {
				switch o := obj.(type) {
				case *types.Var:
					if e.boxed[o] {
						if ref, ok := env.scopeSt.vars[o]; ok {
							return TV{e.loadObject(env.cur, o.Type(), ref), o.Type()}, true
						}
					}
					if t, ok := env.scopeSt.vars[o]; ok {
						return TV{t, o.Type()}, true
					}
				case *types.Const:
					if t, ok := e.constTerm(o.Val(), o.Type()); ok {
						return TV{e.toSort(t, SInt), o.Type()}, true
					}
				}
			}
		}
	}
	// package-level constants
	for _, tp := range []*types.Package{env.tpkg, e.rootPkg()} {
		if tp == nil {
			continue
		}
		if obj := tp.Scope().Lookup(name); obj != nil {
			if c, ok := obj.(*types.Const); ok {
				if t, ok := e.constTerm(c.Val(), c.Type()); ok {
					if t.Sort == SBV64 {
						// constants are mathematical in specs
						bi, _ := new(big.Int).SetString(c.Val().ExactString(), 10)
						if bi != nil {
							t = IntLitS(bi.String())
						}
					}
					return TV{t, specTypeOfConst(c)}, true
				}
			}
		}
	}
	return TV{}, false
}

func specTypeOfConst(c *types.Const) types.Type {
	if b, ok := c.Type().Underlying().(*types.Basic); ok && b.Info()&types.IsBoolean != 0 {
		return specBoolT
	}
	return specInt
}

func (e *Exec) rootPkg() *types.Package {
	if p := e.prog.Pkgs["roaring"]; p != nil {
		return p.Types
	}
	return nil
}

func (e *Exec) innermostScope(p token.Pos) *types.Scope {
	sc := e.fn.Pkg.Types.Scope().Innermost(p)
	return sc
}

func (e *Exec) specBool(st *State, c Clause, env *SpecEnv) Term {
	if c.Raw != nil {
		return c.Raw(st)
	}
	if env == nil {
		env = e.localEnv(st)
	}
	tv := e.tr(c.E, env)
	if tv.T.Sort != SBool {
		e.specFail("clause is not boolean: %s", c.Src)
	}
	return tv.T
}

func (e *Exec) specTerm(st *State, c Clause, env *SpecEnv) Term {
	if env == nil {
		env = e.localEnv(st)
	}
	return e.tr(c.E, env).T
}

// localEnv: identifiers mean the current values of the variables in scope at curPos;
// old(x) means the entry value.
func (e *Exec) localEnv(st *State) *SpecEnv {
	env := &SpecEnv{vars: map[string]TV{}, oldVars: e.entryVars, scopeSt: st, scopePos: e.specPos, cur: st, old: e.entry, pkg: e.pkgShort, tpkg: e.fn.Pkg.Types}
	return env
}

func isNilTV(v TV) bool { return v.T.S == "@nil" }

func (e *Exec) tr(x SExpr, env *SpecEnv) TV {
	switch x := x.(type) {
	case *SIdent:
		if x.Name == "nil" {
			return TV{Term{"@nil", SInt}, types.Typ[types.UntypedNil]}
		}
		if v, ok := e.lookupIdent(env, x.Name); ok {
			return v
		}
		e.specFail("unknown identifier %q", x.Name)
	case *SLit:
		if x.Bool {
			return TV{BoolLit(x.Val == "true"), specBoolT}
		}
		n := new(big.Int)
		if _, ok := n.SetString(x.Val, 0); !ok {
			e.specFail("bad number %q", x.Val)
		}
		return TV{IntLitS(n.String()), specInt}
	case *SOld:
		n := *env
		n.cur = env.old
		n.inOld = true
		if n.scopeSt != nil {
			// identifiers inside old() that are not parameters keep their current value
		}
		return e.tr(x.X, &n)
	case *SUn:
		v := e.tr(x.X, env)
		switch x.Op {
		case "!":
			return TV{Not(v.T), specBoolT}
		case "-":
			if v.T.Sort == SBV64 {
				return TV{mk(SBV64, "bvneg", v.T), v.Ty}
			}
			return TV{Sub(IntLit(0), v.T), specInt}
		case "^":
			if v.T.Sort == SBV64 {
				if strings.HasPrefix(v.T.S, "#x") && len(v.T.S) == 18 {
					if n, err := strconv.ParseUint(v.T.S[2:], 16, 64); err == nil {
						return TV{BVLit(^n), v.Ty} // constant folding: the bit library's patterns contain literals
					}
				}
				return TV{mk(SBV64, "bvnot", v.T), v.Ty}
			}
			e.specFail("^ on a non-word in a contract")
		case "*":
			p, ok := types.Unalias(v.Ty).Underlying().(*types.Pointer)
			if !ok {
				e.specFail("dereference of a non-pointer in a contract")
			}
			return TV{e.loadObject(env.cur, p.Elem(), v.T), p.Elem()}
		}
	case *SBin:
		return e.trBin(x, env)
	case *SQuant:
		return e.trQuant(x, env)
	case *SIndex:
		b := e.tr(x.X, env)
		i := e.tr(x.I, env)
		switch u := types.Unalias(b.Ty).Underlying().(type) {
		case *types.Slice:
			if isObjElem(u.Elem()) {
				// element of a slice of structs: denoted by the pointer to the element object
				return TV{e.elemRef(b.T, i.T), types.NewPointer(u.Elem())}
			}
			key := elemKey(u.Elem())
			e.heapInit(key, u.Elem())
			m := e.heapMetas[key]
			h := e.heapGet(env.cur, key)
			v := Select(Select(h, SRef(b.T), ArraySort(SInt, m.vsort)), ElemIdx(b.T, i.T), m.vsort)
			return TV{v, u.Elem()}
		case *types.Array:
			return TV{Select(b.T, i.T, e.elemSort(u.Elem())), u.Elem()}
		}
		e.specFail("indexing a %s", b.Ty)
	case *SSliceE:
		b := e.tr(x.X, env)
		if _, ok := types.Unalias(b.Ty).Underlying().(*types.Slice); !ok {
			e.specFail("slicing a %s", b.Ty)
		}
		lo := IntLit(0)
		if x.Lo != nil {
			lo = e.tr(x.Lo, env).T
		}
		hi := SLen(b.T)
		if x.Hi != nil {
			hi = e.tr(x.Hi, env).T
		}
		return TV{MkSlice(SRef(b.T), SubOff(b.T, lo), Sub(hi, lo), Sub(SCap(b.T), lo)), b.Ty}
	case *SField:
		b := e.tr(x.X, env)
		return e.trField(b, x.Name, env)
	case *SAssert:
		b := e.tr(x.X, env)
		t := e.resolveType(env.tpkg, "*"+x.Type)
		return TV{CRef(b.T), t}
	case *SCall:
		return e.trCall(x, env)
	}
	e.specFail("unsupported contract expression %s", specString(x))
	return TV{}
}

func (e *Exec) trField(b TV, name string, env *SpecEnv) TV {
	t := types.Unalias(b.Ty)
	if p, ok := t.Underlying().(*types.Pointer); ok {
		st, ok := types.Unalias(p.Elem()).Underlying().(*types.Struct)
		if !ok {
			e.specFail("field %s of non-struct pointer %s", name, b.Ty)
		}
		return e.trFieldOfObject(b.T, p.Elem(), st, name, env)
	}
	if st, ok := t.Underlying().(*types.Struct); ok {
		for i := 0; i < st.NumFields(); i++ {
			if st.Field(i).Name() == name {
				return TV{e.structField(t, b.T, i), st.Field(i).Type()}
			}
		}
		// promoted through embedded struct values
		for i := 0; i < st.NumFields(); i++ {
			f := st.Field(i)
			if f.Embedded() {
				if _, ok := types.Unalias(f.Type()).Underlying().(*types.Struct); ok {
					inner := TV{e.structField(t, b.T, i), f.Type()}
					if hasField(f.Type(), name) {
						return e.trField(inner, name, env)
					}
				}
			}
		}
	}
	e.specFail("no field %s in %s", name, b.Ty)
	return TV{}
}

func hasField(t types.Type, name string) bool {
	st, ok := types.Unalias(t).Underlying().(*types.Struct)
	if !ok {
		return false
	}
	for i := 0; i < st.NumFields(); i++ {
		if st.Field(i).Name() == name {
			return true
		}
	}
	return false
}

func (e *Exec) trFieldOfObject(ref Term, structT types.Type, st *types.Struct, name string, env *SpecEnv) TV {
	for i := 0; i < st.NumFields(); i++ {
		f := st.Field(i)
		if f.Name() == name {
			if _, isStruct := types.Unalias(f.Type()).Underlying().(*types.Struct); isStruct && !isValueStruct(f.Type()) {
				// struct held by value: denote it by a pointer to it (same reference)
				return TV{ref, types.NewPointer(f.Type())}
			}
			return TV{e.loadField(env.cur, structT, f, ref), f.Type()}
		}
	}
	for i := 0; i < st.NumFields(); i++ {
		f := st.Field(i)
		if _, isStruct := types.Unalias(f.Type()).Underlying().(*types.Struct); isStruct && hasField(f.Type(), name) && !isValueStruct(f.Type()) {
			inner := types.Unalias(f.Type()).Underlying().(*types.Struct)
			return e.trFieldOfObject(ref, f.Type(), inner, name, env)
		}
	}
	e.specFail("no field %s in %s", name, structT)
	return TV{}
}

func (e *Exec) nilOf(t types.Type) Term {
	switch types.Unalias(t).Underlying().(type) {
	case *types.Slice:
		return NilSlice
	case *types.Interface:
		return NilCont
	}
	return IntLit(0)
}

func (e *Exec) trBin(x *SBin, env *SpecEnv) TV {
	switch x.Op {
	case "&&", "||", "==>", "<==>":
		l := e.tr(x.L, env)
		r := e.tr(x.R, env)
		if l.T.Sort != SBool || r.T.Sort != SBool {
			e.specFail("logical operator on non-boolean: %s", specString(x))
		}
		switch x.Op {
		case "&&":
			return TV{And(l.T, r.T), specBoolT}
		case "||":
			return TV{Or(l.T, r.T), specBoolT}
		case "==>":
			return TV{Implies(l.T, r.T), specBoolT}
		default:
			return TV{Eq(l.T, r.T), specBoolT}
		}
	}
	l := e.tr(x.L, env)
	r := e.tr(x.R, env)
	switch x.Op {
	case "==", "!=":
		var eq Term
		switch {
		case isNilTV(r):
			eq = e.isNil(l)
		case isNilTV(l):
			eq = e.isNil(r)
		default:
			a, b := e.specUnify(l, r)
			eq = Eq(a, b)
		}
		if x.Op == "!=" {
			eq = Not(eq)
		}
		return TV{eq, specBoolT}
	case "<", "<=", ">", ">=":
		a, b := e.specUnify(l, r)
		if a.Sort == SBV64 {
			op := map[string]string{"<": "bvult", "<=": "bvule", ">": "bvugt", ">=": "bvuge"}[x.Op]
			return TV{mk(SBool, op, a, b), specBoolT}
		}
		return TV{mk(SBool, x.Op, a, b), specBoolT}
	}
	a, b := e.specUnify(l, r)
	if a.Sort == SBV64 {
		switch x.Op {
		case "&":
			return TV{mk(SBV64, "bvand", a, b), specWord}
		case "|":
			return TV{mk(SBV64, "bvor", a, b), specWord}
		case "^":
			return TV{mk(SBV64, "bvxor", a, b), specWord}
		case "&^":
			return TV{mk(SBV64, "bvand", a, mk(SBV64, "bvnot", b)), specWord}
		case "+":
			return TV{mk(SBV64, "bvadd", a, b), specWord}
		case "-":
			return TV{mk(SBV64, "bvsub", a, b), specWord}
		case "<<":
			return TV{mk(SBV64, "bvshl", a, e.shamt(r.T)), specWord}
		case ">>":
			return TV{mk(SBV64, "bvlshr", a, e.shamt(r.T)), specWord}
		}
		e.specFail("operator %s on words", x.Op)
	}
	switch x.Op {
	case "+":
		return TV{Add(a, b), specInt}
	case "-":
		return TV{Sub(a, b), specInt}
	case "*":
		return TV{Mul(a, b), specInt}
	case "/":
		return TV{Div(a, b), specInt}
	case "%":
		return TV{Mod(a, b), specInt}
	case "<<":
		if k, ok := litVal(b); ok && k >= 0 && k < 64 {
			return TV{Mul(a, pow2(uint(k))), specInt}
		}
		e.needPow2()
		return TV{mk(SInt, "*", a, mk(SInt, "pow2i", b)), specInt}
	case ">>":
		if k, ok := litVal(b); ok && k >= 0 && k < 64 {
			return TV{Div(a, pow2(uint(k))), specInt}
		}
		e.needPow2()
		return TV{Div(a, mk(SInt, "pow2i", b)), specInt}
	case "&":
		if m, ok := litVal(b); ok {
			if k, isMask := maskBits(m); isMask {
				return TV{Mod(a, pow2(k)), specInt}
			}
		}
		if isSingleBitTerm(b) {
			return TV{Ite(Eq(b, IntLit(0)), IntLit(0), Ite(Eq(Mod(Div(a, b), IntLit(2)), IntLit(1)), b, IntLit(0))), specInt}
		}
		if isSingleBitTerm(a) {
			return TV{Ite(Eq(a, IntLit(0)), IntLit(0), Ite(Eq(Mod(Div(b, a), IntLit(2)), IntLit(1)), a, IntLit(0))), specInt}
		}
		e.needBitAxioms()
		return TV{mk(SInt, "uf_and", a, b), specInt}
	case "|":
		if isSingleBitTerm(b) {
			return TV{Ite(Or(Eq(b, IntLit(0)), Eq(Mod(Div(a, b), IntLit(2)), IntLit(1))), a, Add(a, b)), specInt}
		}
		if isSingleBitTerm(a) {
			return TV{Ite(Or(Eq(a, IntLit(0)), Eq(Mod(Div(b, a), IntLit(2)), IntLit(1))), b, Add(b, a)), specInt}
		}
		e.needBitAxioms()
		return TV{mk(SInt, "uf_or", a, b), specInt}
	case "^":
		e.needBitAxioms()
		return TV{mk(SInt, "uf_xor", a, b), specInt}
	}
	e.specFail("operator %s unsupported on mathematical integers: %s", x.Op, specString(x))
	return TV{}
}

func (e *Exec) isNil(v TV) Term {
	switch v.T.Sort {
	case SSlice:
		return Eq(SRef(v.T), IntLit(0))
	case SCont:
		return Eq(CKind(v.T), IntLit(0))
	}
	return Eq(v.T, IntLit(0))
}

func (e *Exec) specUnify(l, r TV) (Term, Term) {
	if l.T.Sort == r.T.Sort {
		return l.T, r.T
	}
	if l.T.Sort == SBV64 && r.T.Sort == SInt {
		return l.T, e.toSort(r.T, SBV64)
	}
	if l.T.Sort == SInt && r.T.Sort == SBV64 {
		return e.toSort(l.T, SBV64), r.T
	}
	e.specFail("operands of different sorts: %s vs %s", l.T.Sort, r.T.Sort)
	return l.T, r.T
}

// directIndexBase finds, in body, an index expression X[v] (v the bound variable itself, X free
// of bound variables) and returns X and whether it sits inside old(...).
func directIndexBase(body SExpr, v string, bound map[string]bool) (SExpr, bool) {
	return directIndexBaseSkip(body, v, bound, nil)
}

// directIndexBaseSkip is directIndexBase ignoring the bases whose text is in skip.
func directIndexBaseSkip(body SExpr, v string, bound map[string]bool, skip map[string]bool) (SExpr, bool) {
	var found SExpr
	foundOld := false
	var walk func(x SExpr, inOld bool)
	walk = func(x SExpr, inOld bool) {
		if found != nil || x == nil {
			return
		}
		switch y := x.(type) {
		case *SIndex:
			if id, ok := y.I.(*SIdent); ok && id.Name == v {
				clean := true
				walkSpec(y.X, func(z SExpr) {
					if zi, ok := z.(*SIdent); ok && bound[zi.Name] {
						clean = false
					}
					if _, ok := z.(*SQuant); ok {
						clean = false
					}
				})
				if clean && !skip[specString(y.X)] {
					found = y.X
					foundOld = inOld
					return
				}
			}
			walk(y.X, inOld)
			walk(y.I, inOld)
		case *SOld:
			walk(y.X, true)
		case *SBin:
			walk(y.L, inOld)
			walk(y.R, inOld)
		case *SUn:
			walk(y.X, inOld)
		case *SCall:
			for _, a := range y.Args {
				walk(a, inOld)
			}
		case *SSliceE:
			walk(y.X, inOld)
			walk(y.Lo, inOld)
			walk(y.Hi, inOld)
		case *SField:
			walk(y.X, inOld)
		case *SQuant:
			walk(y.Lo, inOld)
			walk(y.Hi, inOld)
			walk(y.Body, inOld)
		case *SAssert:
			walk(y.X, inOld)
		}
	}
	walk(body, false)
	return found, foundOld
}

// directIndexBases: every distinct X such that body contains X[v] (v the bound variable itself, X free of bound variables).
func directIndexBases(body SExpr, v string, bound map[string]bool) []SExpr {
	var out []SExpr
	seen := map[string]bool{}
	cur := body
	for len(out) < 4 {
		bx, _ := directIndexBaseSkip(cur, v, bound, seen)
		if bx == nil {
			break
		}
		seen[specString(bx)] = true
		out = append(out, bx)
	}
	return out
}

func (e *Exec) trQuant(x *SQuant, env *SpecEnv) TV {
	// premises that index several slices directly by the bound variable are stated once per anchor slice: the SMT
	// variable of each copy is the element address in that slice, so a goal or premise anchored on any of them finds it
	if e.premiseMode && e.anchorPick < 0 && x.Forall && x.Type == "" {
		bound := map[string]bool{x.Var: true}
		if bases := directIndexBases(x.Body, x.Var, bound); len(bases) > 1 {
			var parts []Term
			for k := range bases {
				e.anchorPick = k
				parts = append(parts, e.trQuant(x, env).T)
			}
			e.anchorPick = -1
			return TV{And(parts...), specBoolT}
		}
	}
	// nested quantifiers of the same kind are flattened into one binder list
	var chain []*SQuant
	cur := x
	for {
		chain = append(chain, cur)
		inner, ok := cur.Body.(*SQuant)
		if !ok || inner.Forall != x.Forall {
			break
		}
		cur = inner
	}
	bound := map[string]bool{}
	for _, q := range chain {
		bound[q.Var] = true
	}
	innermost := chain[len(chain)-1].Body
	var names []string
	var guards []Term
	for _, q := range chain {
		e.nq++
		name := fmt.Sprintf("%s!q%d", q.Var, e.nq)
		v := Term{name, SInt}
		var vt types.Type = specInt
		val := v
		if q.Type != "" {
			vt = e.resolveType(env.tpkg, q.Type)
			if e.sortOf(vt) != SInt {
				e.specFail("quantified variable of type %s unsupported", q.Type)
			}
			guards = append(guards, e.rangeFact(v, vt))
		} else {
			// absolute addressing: when the variable directly indexes a slice, the SMT variable is the
			// element address (base + i), so that its trigger (select A p) contains no arithmetic
			bx, bxOld := directIndexBase(innermost, q.Var, bound)
			if e.anchorPick > 0 && q == chain[0] {
				skip := map[string]bool{}
				for k := 0; k < e.anchorPick && bx != nil; k++ {
					skip[specString(bx)] = true
					bx, bxOld = directIndexBaseSkip(innermost, q.Var, bound, skip)
				}
			}
			if bx != nil {
				benv := env
				if bxOld {
					n := *env
					n.cur = env.old
					n.inOld = true
					benv = &n
				}
				if btv, ok := e.tryTr(bx, benv); ok && btv.T.Sort == SSlice {
					root, delta := splitOff(SOff(btv.T))
					base := Add(root, delta)
					if base.S != "0" {
						val = Term{"(- " + name + " " + base.S + ")", SInt}
					}
				}
			}
			lo := e.tr(q.Lo, env).T
			hi := e.tr(q.Hi, env).T
			guards = append(guards, And(Le(lo, val), Lt(val, hi)))
		}
		names = append(names, name)
		env = env.with(q.Var, TV{val, vt})
	}
	body := e.tr(innermost, env)
	if body.T.Sort != SBool {
		e.specFail("quantifier body not boolean")
	}
	var binders []string
	for _, n := range names {
		binders = append(binders, "("+n+" Int)")
	}
	bs := strings.Join(binders, " ")
	var txt string
	if x.Forall {
		// a body that expands (through a spec function) to a universal formula is merged into this binder list:
		// the outer variables then occur in the triggers of the inner atoms
		bt := body.T
		for os.Getenv("RVC_NOFLAT") == "" && strings.HasPrefix(bt.S, "(forall ((") {
			parts := splitTop(bt.S[1 : len(bt.S)-1])
			if len(parts) != 3 || strings.HasPrefix(parts[2], "(! ") {
				break
			}
			inner := parts[1][1 : len(parts[1])-1]
			clash := false
			for _, b := range splitTop(inner) {
				nm := strings.Fields(b[1:])[0]
				if strings.Contains(bs, "("+nm+" ") {
					clash = true
				}
			}
			if clash {
				break
			}
			for _, b := range splitTop(inner) {
				names = append(names, strings.Fields(b[1:])[0])
			}
			bs += " " + inner
			bt = Term{parts[2], SBool}
		}
		txt = fmt.Sprintf("(forall (%s) %s)", bs, Implies(And(guards...), bt).S)
	} else {
		txt = fmt.Sprintf("(exists (%s) %s)", bs, And(append(guards, body.T)...).S)
	}
	// canonical bound-variable names (content hash): syntactically equal formulas become textually equal,
	// so that the solver need not prove two copies of the same quantified formula equivalent
	ph := txt
	for i, n := range names {
		ph = strings.ReplaceAll(ph, n, fmt.Sprintf("#%d#", i))
	}
	h := sha256.Sum256([]byte(ph))
	var hn uint64
	for _, b := range h[:6] {
		hn = hn<<8 | uint64(b)
	}
	for i, n := range names {
		base := n[:strings.IndexByte(n, '!')]
		txt = strings.ReplaceAll(txt, n, fmt.Sprintf("%s!q%d%02d", base, 1000000+hn%900000000, i))
	}
	return TV{Term{txt, SBool}, specBoolT}
}

// tryTr translates an expression, reporting failure instead of aborting.
func (e *Exec) tryTr(x SExpr, env *SpecEnv) (tv TV, ok bool) {
	defer func() {
		if r := recover(); r != nil {
			if _, isSpec := r.(specErr); isSpec {
				ok = false
				return
			}
			panic(r)
		}
	}()
	return e.tr(x, env), true
}

func (e *Exec) trCall(x *SCall, env *SpecEnv) TV {
	argn := func(n int) {
		if len(x.Args) != n {
			e.specFail("%s takes %d arguments", x.Fun, n)
		}
	}
	switch x.Fun {
	case "len", "cap":
		argn(1)
		v := e.tr(x.Args[0], env)
		if v.T.Sort != SSlice {
			if a, ok := types.Unalias(v.Ty).Underlying().(*types.Array); ok {
				return TV{IntLit(a.Len()), specInt}
			}
			e.specFail("%s of a non-slice", x.Fun)
		}
		if x.Fun == "len" {
			return TV{SLen(v.T), specInt}
		}
		return TV{SCap(v.T), specInt}
	case "ite":
		argn(3)
		c := e.tr(x.Args[0], env)
		a := e.tr(x.Args[1], env)
		b := e.tr(x.Args[2], env)
		p, q := e.specUnify(a, b)
		return TV{Ite(c.T, p, q), a.Ty}
	case "min", "max":
		argn(2)
		a := e.tr(x.Args[0], env)
		b := e.tr(x.Args[1], env)
		if x.Fun == "min" {
			return TV{Ite(Le(a.T, b.T), a.T, b.T), specInt}
		}
		return TV{Ite(Ge(a.T, b.T), a.T, b.T), specInt}
	case "bit":
		argn(2)
		w := e.tr(x.Args[0], env)
		k := e.tr(x.Args[1], env)
		if w.T.Sort != SBV64 {
			w.T = e.toSort(w.T, SBV64)
		}
		e.needBitLib()
		return TV{mk(SBool, "bitU", w.T, k.T), specBoolT}
	case "popcnt":
		argn(1)
		w := e.tr(x.Args[0], env)
		e.needPopcnt()
		return TV{mk(SInt, "popcnt", e.toSort(w.T, SBV64)), specInt}
	case "arr":
		// the backing array of a slice as a value
		argn(1)
		v := e.tr(x.Args[0], env)
		sl, ok := types.Unalias(v.Ty).Underlying().(*types.Slice)
		if !ok {
			e.specFail("arr() of a non-slice")
		}
		key := elemKey(sl.Elem())
		e.heapInit(key, sl.Elem())
		m := e.heapMetas[key]
		return TV{Select(e.heapGet(env.cur, key), SRef(v.T), ArraySort(SInt, m.vsort)), types.NewArray(sl.Elem(), 1<<40)}
	case "aget":
		argn(2)
		a := e.tr(x.Args[0], env)
		i := e.tr(x.Args[1], env)
		at, ok := types.Unalias(a.Ty).Underlying().(*types.Array)
		if !ok {
			e.specFail("aget() of a non-array value")
		}
		return TV{Select(a.T, i.T, e.elemSort(at.Elem())), at.Elem()}
	case "astore":
		argn(3)
		a := e.tr(x.Args[0], env)
		i := e.tr(x.Args[1], env)
		v := e.tr(x.Args[2], env)
		at, ok := types.Unalias(a.Ty).Underlying().(*types.Array)
		if !ok {
			e.specFail("astore() of a non-array value")
		}
		return TV{Store(a.T, i.T, e.toSort(v.T, e.elemSort(at.Elem()))), a.Ty}
	case "wordeq":
		argn(2)
		a := e.tr(x.Args[0], env)
		b := e.tr(x.Args[1], env)
		e.needBitLib()
		return TV{mk(SBool, "wordeq", e.toSort(a.T, SBV64), e.toSort(b.T, SBV64)), specBoolT}
	case "wcnt":
		argn(2)
		w := e.tr(x.Args[0], env)
		k := e.tr(x.Args[1], env)
		e.needBitLib()
		return TV{mk(SInt, "wcnt", e.toSort(w.T, SBV64), k.T), specInt}
	case "tz", "lz":
		argn(1)
		w := e.tr(x.Args[0], env)
		e.needBitLib()
		return TV{mk(SInt, "bv"+x.Fun, e.toSort(w.T, SBV64)), specInt}
	case "word":
		argn(1)
		v := e.tr(x.Args[0], env)
		return TV{e.toSort(v.T, SBV64), specWord}
	case "nat":
		argn(1)
		v := e.tr(x.Args[0], env)
		return TV{e.toSort(v.T, SInt), specInt}
	case "fresh":
		argn(1)
		v := e.tr(x.Args[0], env)
		var ref Term
		switch v.T.Sort {
		case SSlice:
			ref = SRef(v.T)
		case SCont:
			ref = CRef(v.T)
		default:
			ref = v.T
		}
		return TV{And(Ge(ref, e.allocGet(env.old)), Lt(ref, e.allocGet(env.cur))), specBoolT}
	case "allocated":
		argn(1)
		v := e.tr(x.Args[0], env)
		return TV{e.allocFact(v.T, v.Ty, e.allocGet(env.cur)), specBoolT}
	case "typeis":
		argn(2)
		v := e.tr(x.Args[0], env)
		id, ok := x.Args[1].(*SIdent)
		if !ok {
			e.specFail("typeis: second argument must be a type name")
		}
		if id.Name == "nil" {
			return TV{Eq(CKind(v.T), IntLit(0)), specBoolT}
		}
		t := e.resolveType(env.tpkg, "*"+id.Name)
		return TV{Eq(CKind(v.T), IntLit(int64(e.kindCode(t)))), specBoolT}
	case "sameslice":
		argn(2)
		a := e.tr(x.Args[0], env)
		b := e.tr(x.Args[1], env)
		return TV{Eq(a.T, b.T), specBoolT}
	case "ref":
		argn(1)
		v := e.tr(x.Args[0], env)
		switch v.T.Sort {
		case SSlice:
			return TV{SRef(v.T), specInt}
		case SCont:
			return TV{CRef(v.T), specInt}
		}
		return TV{v.T, specInt}
	case "off":
		argn(1)
		v := e.tr(x.Args[0], env)
		return TV{SOff(v.T), specInt}
	}
	sf := e.prog.lookupSpec(env.pkg, x.Fun)
	if sf == nil {
		e.specFail("unknown spec function %q", x.Fun)
	}
	if len(x.Args) != len(sf.Params) {
		e.specFail("%s takes %d arguments", x.Fun, len(sf.Params))
	}
	if env.depth > 40 {
		e.specFail("spec function expansion too deep at %s", x.Fun)
	}
	sfPkg := e.prog.Pkgs[sf.Pkg].Types
	args := make([]TV, len(x.Args))
	for i, a := range x.Args {
		args[i] = e.tr(a, env)
		pt := e.resolveType(sfPkg, sf.Params[i].Type)
		want := e.sortOf(pt)
		if pb, ok := pt.Underlying().(*types.Basic); ok && pb.Kind() == types.Uint64 {
			want = args[i].T.Sort // uint64 parameters take either view
		}
		if at, ok := pt.Underlying().(*types.Array); ok {
			want = ArraySort(SInt, e.elemSort(at.Elem()))
		}
		if isNilTV(args[i]) {
			args[i] = TV{e.nilOf(pt), pt}
		}
		if args[i].T.Sort != want {
			// pointer passed where interface expected etc.
			if want == SCont && args[i].T.Sort == SInt {
				args[i] = TV{MkCont(IntLit(int64(e.kindCode(args[i].Ty))), args[i].T), pt}
			} else if args[i].T.Sort == SBV64 && want == SInt {
				// a word (uint64 in a word-mode function) passed to an int parameter of a spec function: its value as a number
				args[i] = TV{e.toSort(args[i].T, SInt), pt}
			} else {
				e.specFail("argument %d of %s has sort %s, want %s", i, x.Fun, args[i].T.Sort, want)
			}
		}
		if args[i].T.Sort == SInt || args[i].T.Sort == SSlice || args[i].T.Sort == SCont {
			args[i].Ty = pt
		}
	}
	if sf.Recurse {
		return e.recursiveSpecCall(sf, args, env)
	}
	if (sf.Pred && len(args) > 0 && args[len(args)-1].T.Sort == SInt) || sf.Prop {
		if tv, ok := e.predCall(sf, sfPkg, args, env); ok {
			return tv
		}
	}
	// inline expansion in the callee's own binding environment, same heaps
	n := &SpecEnv{vars: map[string]TV{}, oldVars: map[string]TV{}, cur: env.cur, old: env.old, pkg: sf.Pkg, tpkg: sfPkg, depth: env.depth + 1, inOld: false}
	for i, p := range sf.Params {
		n.vars[p.Name] = args[i]
	}
	out := e.tr(sf.Body, n)
	rt := e.resolveType(sfPkg, sf.Ret)
	if out.T.Sort == SInt {
		out.Ty = rt
		if _, isB := rt.Underlying().(*types.Basic); isB {
			out.Ty = specInt
		}
	}
	return out
}

func (e *Exec) needPopcnt() { e.needBitLib() }

// recursiveSpecCall: a recursive spec function becomes an SMT define-fun-rec whose extra
// parameters are the heap maps its body reads.
func (e *Exec) recursiveSpecCall(sf *SpecFunc, args []TV, env *SpecEnv) TV {
	name := "rf_" + sf.Pkg + "_" + sf.Name
	sfPkg := e.prog.Pkgs[sf.Pkg].Types
	rt := e.resolveType(sfPkg, sf.Ret)
	rsort := e.sortOf(rt)
	var outTy types.Type = rt
	if rsort == SInt {
		outTy = specInt
	}
	if e.recInProgress[name] {
		// recursive occurrence inside the body being translated
		ts := make([]Term, len(args))
		for i, a := range args {
			ts[i] = a.T
		}
		return TV{mk(rsort, name+"@self", ts...), outTy}
	}
	keys, ok := e.recKeys[name]
	if !ok || !e.declared["recfun:"+name] {
		e.recInProgress[name] = true
		probe := []string{}
		pst := &State{vars: nil, heap: nil, pc: True, probe: &probe}
		n := &SpecEnv{vars: map[string]TV{}, oldVars: map[string]TV{}, cur: pst, old: pst, pkg: sf.Pkg, tpkg: sfPkg, depth: env.depth + 1}
		var formals []string
		for _, p := range sf.Params {
			pt := e.resolveType(sfPkg, p.Type)
			ps := e.sortOf(pt)
			if at, ok := pt.Underlying().(*types.Array); ok {
				ps = ArraySort(SInt, e.elemSort(at.Elem()))
			}
			n.vars[p.Name] = TV{Term{"p!" + p.Name, ps}, pt}
			formals = append(formals, fmt.Sprintf("(p!%s %s)", p.Name, ps))
		}
		body := e.tr(sf.Body, n)
		delete(e.recInProgress, name)
		sort.Strings(probe)
		keys = probe
		e.recKeys[name] = keys
		var hargs string
		for _, k := range keys {
			formals = append(formals, fmt.Sprintf("(hp!%s %s)", k, e.heapMetas[k].sort))
			hargs += " hp!" + k
		}
		// recursive occurrences pass the heap formals through
		txt := body.T.S
		txt = rewriteSelfCalls(txt, name, hargs)
		if sf.Opaque && !e.revealOpaque {
			// opaque: VCs only see the function through lemmas (no unfolding by the solver)
			var sorts []string
			for _, f := range formals {
				f = strings.TrimSuffix(strings.TrimPrefix(f, "("), ")")
				sorts = append(sorts, f[strings.IndexByte(f, ' ')+1:])
			}
			e.rawDecl("recfun:"+name, fmt.Sprintf("(declare-fun %s (%s) %s)", name, strings.Join(sorts, " "), rsort))
		} else {
			e.rawDecl("recfun:"+name, fmt.Sprintf("(define-fun-rec %s (%s) %s %s)", name, strings.Join(formals, " "), rsort, txt))
		}
	}
	ts := make([]Term, 0, len(args)+len(keys))
	for _, a := range args {
		ts = append(ts, a.T)
	}
	for _, k := range keys {
		h := e.heapGet(env.cur, k)
		if env.cur.probe != nil || !strings.HasPrefix(k, "M_") || specReadsThroughPointers(args) {
			ts = append(ts, h)
			continue
		}
		// frame by construction: the function only sees the backing arrays of its slice arguments,
		// so that its value is syntactically independent of writes to other arrays
		m := e.heapMetas[k]
		base := Term{"emptyheap!" + k, m.sort}
		e.declare(base.S, m.sort)
		restricted := base
		for _, a := range args {
			sl, ok := types.Unalias(a.Ty).Underlying().(*types.Slice)
			if !ok || a.T.Sort != SSlice || elemKey(sl.Elem()) != k {
				continue
			}
			restricted = Store(restricted, SRef(a.T), Select(h, SRef(a.T), ArraySort(SInt, m.vsort)))
		}
		ts = append(ts, restricted)
	}
	return TV{mk(rsort, name, ts...), outTy}
}

// rewriteSelfCalls turns "(name@self a b)" into "(name a b <heap formals>)".
func rewriteSelfCalls(txt, name, hargs string) string {
	marker := "(" + name + "@self"
	for {
		i := strings.Index(txt, marker)
		if i < 0 {
			return txt
		}
		// find the matching close paren
		depth := 0
		j := i
		for ; j < len(txt); j++ {
			if txt[j] == '(' {
				depth++
			} else if txt[j] == ')' {
				depth--
				if depth == 0 {
					break
				}
			}
		}
		txt = txt[:i] + "(" + name + txt[i+len(marker):j] + hargs + txt[j:]
	}
}

// parameters of an enclosing predicate instance (nested pred calls inside a pred body)
var outerParamRe = regexp.MustCompile(`\b[ib]!p[0-9]+\b|\b[vuwt]!pred\b|@V@`)
var innerPredRe = regexp.MustCompile(`\(P_[A-Za-z0-9_]+![0-9a-f]+ v!pred\)`)
var qvarRe = regexp.MustCompile(`![q]([0-9]+)`)
var qvarFullRe = regexp.MustCompile(`[A-Za-z_][A-Za-z0-9_]*![q][0-9]+`)

// predCall: a set-like predicate P(args, v) is given a name per distinct (args, heap) instance:
//
//	(declare-fun P!h (Int) Bool)   (forall v. P!h(v) = body)  with trigger P!h(v)
//
// so that quantified views  forall v :: P(a,v) <==> ...  have the natural triggers P!h(v).
// predCallParam: every argument of the predicate is a PARAMETER of the named instance; the instance is keyed only by
// the text of its body, i.e. by the versions of the heaps the body reads. `cmem(ra.containers[i], v)` after a store of c
// into slot i and `cmem(c, v)` are then the same symbol applied to equal arguments (congruence), and a change of a heap
// the body does not read (e.g. the slice that holds the container values) does not change the symbol.
func (e *Exec) predCallParam(sf *SpecFunc, sfPkg *types.Package, args []TV, env *SpecEnv) (TV, bool) {
	if env.cur.probe != nil {
		return TV{}, false
	}
	n := &SpecEnv{vars: map[string]TV{}, oldVars: map[string]TV{}, cur: env.cur, old: env.old, pkg: sf.Pkg, tpkg: sfPkg, depth: env.depth + 1}
	last := len(sf.Params) - 1
	if sf.Prop {
		last = -1
	}
	var sorts, binders, formals []string
	var actuals []Term
	for i, p := range sf.Params {
		fname := fmt.Sprintf("a!p%d", i)
		if i == last {
			fname = "v!pred"
		}
		srt := args[i].T.Sort
		n.vars[p.Name] = TV{Term{fname, srt}, args[i].Ty}
		sorts = append(sorts, string(srt))
		binders = append(binders, "("+fname+" "+string(srt)+")")
		formals = append(formals, fname)
		actuals = append(actuals, args[i].T)
	}
	body := e.tr(sf.Body, n)
	if body.T.Sort != SBool {
		return TV{}, false
	}
	canon := body.T.S
	norm := map[string]string{}
	canon = qvarFullRe.ReplaceAllStringFunc(canon, func(m string) string {
		if r, ok := norm[m]; ok {
			return r
		}
		r := fmt.Sprintf("%s!n%d", m[:strings.IndexByte(m, '!')], len(norm))
		norm[m] = r
		return r
	})
	name := e.predInstance(sf, canon, sorts, binders, formals, true, len(formals) > 0, 0)
	if len(actuals) == 0 {
		return TV{Term{name, SBool}, specBoolT}, true
	}
	return TV{mk(SBool, name, actuals...), specBoolT}, true
}

func (e *Exec) predCall(sf *SpecFunc, sfPkg *types.Package, args0 []TV, env *SpecEnv) (TV, bool) {
	if os.Getenv("RVC_PREDPARAM") != "0" {
		return e.predCallParam(sf, sfPkg, args0, env)
	}
	args := append([]TV(nil), args0...) // the caller falls back to inline expansion with its own arguments
	n := &SpecEnv{vars: map[string]TV{}, oldVars: map[string]TV{}, cur: env.cur, old: env.old, pkg: sf.Pkg, tpkg: sfPkg, depth: env.depth + 1}
	last := len(sf.Params) - 1
	if sf.Prop {
		last = -1 // no view parameter
	}
	// the view variable gets a name that does not occur in the fixed arguments (an enclosing predicate's view variable
	// may be a fixed argument of this instance)
	vname := "v!pred"
	for _, cand := range []string{"v!pred", "u!pred", "w!pred", "t!pred"} {
		free := true
		for i, a := range args {
			if i != last && strings.Contains(a.T.S, cand) {
				free = false
			}
		}
		if free {
			vname = cand
			break
		}
	}
	for i, p := range sf.Params {
		if i == last {
			n.vars[p.Name] = TV{Term{vname, SInt}, args[i].Ty}
		} else {
			n.vars[p.Name] = args[i]
		}
	}
	if env.cur.probe != nil {
		return TV{}, false
	}
	// an argument of the shape S[e] (element of a slice that does not depend on bound variables) is keyed by S and the
	// heap version only; the element address becomes a parameter, so that S[i], S[j+0], S[j-n] share one symbol
	var idxActuals []Term
	for i, p := range sf.Params {
		if i == last {
			continue
		}
		a := args[i]
		if !strings.HasPrefix(a.T.S, "(select (select ") {
			continue
		}
		parts := splitTop(a.T.S[1 : len(a.T.S)-1])
		if len(parts) != 3 || qvarFullRe.MatchString(parts[1]) {
			continue
		}
		ph := fmt.Sprintf("i!p%d", len(idxActuals))
		idxActuals = append(idxActuals, Term{parts[2], SInt})
		n.vars[p.Name] = TV{Term{"(select " + parts[1] + " " + ph + ")", a.T.Sort}, a.Ty}
		// the slice part may itself mention outer parameters / bound variables: scan it below, but not the new placeholder
		args[i] = TV{Term{parts[1], a.T.Sort}, a.Ty}
	}
	// variables bound by enclosing quantifiers that occur in the fixed arguments become parameters of the predicate
	var bvars []string
	seenB := map[string]bool{}
	for i, a := range args {
		if i == last {
			continue
		}
		for _, m := range append(qvarFullRe.FindAllString(a.T.S, -1), outerParamRe.FindAllString(a.T.S, -1)...) {
			if !seenB[m] {
				seenB[m] = true
				bvars = append(bvars, m)
			}
		}
	}
	if len(bvars) > 4 {
		return TV{}, false
	}
	body := e.tr(sf.Body, n)
	if body.T.Sort != SBool {
		return TV{}, false
	}
	// canonical text: enclosing bound variables -> #Bk#, own bound variables -> sequential names
	canon := body.T.S
	for k, b := range bvars {
		canon = strings.ReplaceAll(canon, b, fmt.Sprintf("b!p%d", k))
	}
	norm := map[string]string{}
	canon = qvarFullRe.ReplaceAllStringFunc(canon, func(m string) string {
		if r, ok := norm[m]; ok {
			return r
		}
		r := fmt.Sprintf("%s!n%d", m[:strings.IndexByte(m, '!')], len(norm))
		norm[m] = r
		return r
	})
	var sorts, binders, formals []string
	for k := range idxActuals {
		sorts = append(sorts, "Int")
		binders = append(binders, fmt.Sprintf("(i!p%d Int)", k))
		formals = append(formals, fmt.Sprintf("i!p%d", k))
	}
	for k := range bvars {
		sorts = append(sorts, "Int")
		binders = append(binders, fmt.Sprintf("(b!p%d Int)", k))
		formals = append(formals, fmt.Sprintf("b!p%d", k))
	}
	if last >= 0 {
		sorts = append(sorts, "Int")
		binders = append(binders, "("+vname+" Int)")
		formals = append(formals, vname)
	}
	name := e.predInstance(sf, canon, sorts, binders, formals, last >= 0 && len(bvars) == 0 && len(idxActuals) == 0, len(idxActuals) > 0, 0)
	var actuals []Term
	actuals = append(actuals, idxActuals...)
	for _, b := range bvars {
		actuals = append(actuals, Term{b, SInt})
	}
	if last >= 0 {
		actuals = append(actuals, args[last].T)
	}
	if len(actuals) == 0 {
		return TV{Term{name, SBool}, specBoolT}, true
	}
	return TV{mk(SBool, name, actuals...), specBoolT}, true
}

// innerPredApps returns the applications "(P_name!hash args...)" of named predicate instances occurring in s.
func innerPredApps(s string) []string {
	var out []string
	for _, loc := range predNameRe.FindAllStringIndex(s, -1) {
		i := loc[0]
		if i == 0 || s[i-1] != '(' {
			continue
		}
		depth := 0
		for j := i - 1; j < len(s); j++ {
			if s[j] == '(' {
				depth++
			} else if s[j] == ')' {
				depth--
				if depth == 0 {
					out = append(out, s[i-1:j+1])
					break
				}
			}
		}
	}
	return out
}

var mergedNameRe = regexp.MustCompile(`[A-Za-z_][A-Za-z0-9_.]*![0-9]+`)
var predNameRe = regexp.MustCompile(`P_[A-Za-z0-9_]+![0-9a-f]{12}`)

// predInstance declares (once) the named instance of a predicate with the given canonical body and returns its name.
// Instances whose body mentions names introduced by a control-flow join get a bridge to the corresponding instance
// of each branch:  pc_branch ==> forall params. P!merged(params) = P!branch(params)  (the merged heaps and variables
// equal the branch's under pc_branch, so the two definitions coincide there).
func (e *Exec) predInstance(sf *SpecFunc, canon string, sorts, binders, formals []string, bottomUp, famBridges bool, depth int) string {
	h := sha256.Sum256([]byte(sf.Pkg + "." + sf.Name + "|" + canon))
	name := fmt.Sprintf("P_%s!%x", sf.Name, h[:6])
	if e.declared["pred:"+name] {
		return name
	}
	e.mark("pred:" + name)
	e.rawDecl("fun:"+name, fmt.Sprintf("(declare-fun %s (%s) Bool)", name, strings.Join(sorts, " ")))
	if len(formals) == 0 {
		e.globalAxiom(fmt.Sprintf("(assert (= %s %s))", name, canon))
	} else {
		app := "(" + name + " " + strings.Join(formals, " ") + ")"
		pats := ":pattern (" + app + ")"
		if bottomUp {
			// bottom-up: a membership fact of an inner view (same element) also produces this view's atom; an inner
			// application qualifies when it mentions every formal of this instance
			seenP := map[string]bool{}
			for _, m := range innerPredApps(canon) {
				if seenP[m] || strings.HasPrefix(m, "("+name+" ") {
					continue
				}
				all := true
				for _, f := range formals {
					if !strings.Contains(m, f) {
						all = false
					}
				}
				if all && !strings.Contains(m, "!n") { // no variables bound inside the body
					seenP[m] = true
					pats += " :pattern (" + m + ")"
				}
			}
		}
		e.globalAxiom(fmt.Sprintf("(assert (forall (%s) (! (= %s %s) %s)))", strings.Join(binders, " "), app, canon, pats))
		if famBridges && os.Getenv("RVC_NOBRIDGE") == "" {
			// term-creation bridges between the instances of one predicate over S[e] in different heap versions:
			// a ground atom of one version creates the atom of the other, so both definitions unfold at that point
			// (the bridge formula itself is an implication into a fresh predicate: conservative)
			fam := fmt.Sprintf("%s.%s/%d", sf.Pkg, sf.Name, len(formals))
			prev := e.predFamilies[fam]
			if len(prev) > 5 {
				prev = prev[len(prev)-5:]
			}
			mkBridge := func(from, to string) {
				bn := "B_" + from
				e.rawDecl("fun:"+bn, fmt.Sprintf("(declare-fun %s (%s) Bool)", bn, strings.Join(sorts, " ")))
				fa := strings.Join(formals, " ")
				e.predBridges = append(e.predBridges, predBridge{from: from, to: to, ndecl: e.nDecls(),
					text: fmt.Sprintf("(assert (forall (%s) (! (=> (%s %s) (%s %s)) :pattern ((%s %s)))))", strings.Join(binders, " "), from, fa, bn, fa, to, fa)})
			}
			for _, o := range prev {
				mkBridge(o, name)
				mkBridge(name, o)
			}
			if e.predFamilies == nil {
				e.predFamilies = map[string][]string{}
			}
			e.predFamilies[fam] = append(e.predFamilies[fam], name)
		}
	}
	// bridges across the most recent join whose names occur in the body
	if depth < 3 && e.nJoinBridge < 400 && os.Getenv("RVC_NOJOIN") == "" && len(e.mergeMap) > 0 {
		var alts []mergeAlt
		for _, m := range mergedNameRe.FindAllString(canon, -1) {
			if a, ok := e.mergeMap[m]; ok && (alts == nil || len(a) == len(alts)) {
				if alts == nil {
					alts = a
				}
			}
		}
		if alts == nil {
			// inner instances that have branch counterparts
			for _, m := range predNameRe.FindAllString(canon, -1) {
				if br := e.predBranch[m]; br != nil {
					for pc := range br {
						alts = append(alts, mergeAlt{pc: pc})
					}
					sort.Slice(alts, func(i, j int) bool { return alts[i].pc < alts[j].pc })
					break
				}
			}
		}
		for _, alt := range alts {
			ck := mergedNameRe.ReplaceAllStringFunc(canon, func(m string) string {
				if a, ok := e.mergeMap[m]; ok {
					for _, x := range a {
						if x.pc == alt.pc {
							return x.term
						}
					}
				}
				return m
			})
			ck = predNameRe.ReplaceAllStringFunc(ck, func(m string) string {
				if br := e.predBranch[m]; br != nil {
					if t, ok := br[alt.pc]; ok {
						return t
					}
				}
				return m
			})
			if ck == canon {
				continue
			}
			nk := e.predInstance(sf, ck, sorts, binders, formals, bottomUp, false, depth+1)
			if e.predBranch == nil {
				e.predBranch = map[string]map[string]string{}
			}
			if e.predBranch[name] == nil {
				e.predBranch[name] = map[string]string{}
			}
			e.predBranch[name][alt.pc] = nk
			var txt string
			if len(formals) == 0 {
				txt = fmt.Sprintf("(assert (=> %s (= %s %s)))", alt.pc, name, nk)
			} else {
				fa := strings.Join(formals, " ")
				txt = fmt.Sprintf("(assert (=> %s (forall (%s) (! (= (%s %s) (%s %s)) :pattern ((%s %s))))))", alt.pc, strings.Join(binders, " "), name, fa, nk, fa, name, fa)
			}
			e.predBridges = append(e.predBridges, predBridge{from: name, to: nk, ndecl: e.nDecls(), text: txt, join: true})
			e.nJoinBridge++
		}
	}
	return name
}

// viewForalls returns the view-quantified conjuncts  forall v in LO..HI :: B  (LO, HI literals) of a clause.
func viewForalls(x SExpr) []*SQuant {
	switch y := x.(type) {
	case *SBin:
		if y.Op == "&&" {
			return append(viewForalls(y.L), viewForalls(y.R)...)
		}
	case *SQuant:
		if y.Forall && y.Type == "" {
			lo, ok1 := y.Lo.(*SLit)
			hi, ok2 := y.Hi.(*SLit)
			if ok1 && ok2 && !lo.Bool && !hi.Bool {
				if n, ok := new(big.Int).SetString(hi.Val, 0); ok && n.Cmp(big.NewInt(65536)) >= 0 {
					return []*SQuant{y}
				}
			}
		}
	}
	return nil
}

func viewRange(q *SQuant) string { return q.Lo.(*SLit).Val + ".." + q.Hi.(*SLit).Val }

const viewPH = "@V@"

// assumeClause assumes a clause and registers its view-quantified conjuncts for instantiation.
func (e *Exec) assumeClause(st *State, c Clause, env *SpecEnv) {
	e.premiseMode = os.Getenv("RVC_NOMULTIANCHOR") == ""
	t := e.specBool(st, c, env)
	e.premiseMode = false
	n0 := len(e.assumps)
	e.assumeTagged(st, t, c.Tag)
	if c.E == nil || len(e.assumps) == n0 {
		return
	}
	if env == nil {
		env = e.localEnv(st)
	}
	for _, q := range viewForalls(c.E) {
		if tv, ok := e.tryTr(q.Body, env.with(q.Var, TV{Term{viewPH, SInt}, specInt})); ok && tv.T.Sort == SBool {
			e.viewFacts = append(e.viewFacts, viewFact{at: n0, pc: st.pc.S, body: tv.T.S, rng: viewRange(q)})
		}
	}
}

// viewGoalOf: when the clause is exactly one view-quantified formula, its body in instantiable form.
func (e *Exec) viewGoalOf(c Clause, env *SpecEnv, st *State) string {
	if c.E == nil {
		return ""
	}
	q, ok := c.E.(*SQuant)
	if !ok {
		return ""
	}
	if vs := viewForalls(q); len(vs) != 1 {
		return ""
	}
	if env == nil {
		env = e.localEnv(st)
	}
	if tv, ok := e.tryTr(q.Body, env.with(q.Var, TV{Term{viewPH, SInt}, specInt})); ok && tv.T.Sort == SBool {
		return viewRange(q) + "|" + tv.T.S
	}
	return ""
}

// specReadsThroughPointers: a recursive spec function with pointer / interface parameters may read
// element memory through them, so its heap argument cannot be restricted to its slice arguments.
func specReadsThroughPointers(args []TV) bool {
	for _, a := range args {
		switch types.Unalias(a.Ty).Underlying().(type) {
		case *types.Pointer, *types.Interface:
			return true
		}
	}
	return false
}
