package main

// SMT layer: terms are S-expression strings tagged with a sort; queries are
// written to scratch files and raced over z3-new / z3 / cvc5.

import (
	"bytes"
	"context"
	"crypto/sha256"
	"fmt"
	"os"
	"os/exec"
	"path/filepath"
	"strconv"
	"strings"
	"sync"
	"sync/atomic"
	"time"
)

type Sort string

const (
	SInt   Sort = "Int"
	SBool  Sort = "Bool"
	SBV64  Sort = "(_ BitVec 64)"
	SSlice Sort = "Slice"
	SCont  Sort = "Cont"
)

type Term struct {
	S    string
	Sort Sort
}

func (t Term) String() string { return t.S }

func mk(sort Sort, op string, args ...Term) Term {
	var b strings.Builder
	b.WriteByte('(')
	b.WriteString(op)
	for _, a := range args {
		b.WriteByte(' ')
		b.WriteString(a.S)
	}
	b.WriteByte(')')
	return Term{b.String(), sort}
}

func IntLit(v int64) Term {
	if v < 0 {
		return Term{"(- " + strconv.FormatInt(-v, 10) + ")", SInt}
	}
	return Term{strconv.FormatInt(v, 10), SInt}
}
func IntLitS(s string) Term {
	if strings.HasPrefix(s, "-") {
		return Term{"(- " + s[1:] + ")", SInt}
	}
	return Term{s, SInt}
}
func BVLit(v uint64) Term { return Term{fmt.Sprintf("#x%016x", v), SBV64} }

var (
	True  = Term{"true", SBool}
	False = Term{"false", SBool}
)

func BoolLit(b bool) Term {
	if b {
		return True
	}
	return False
}

func And(ts ...Term) Term {
	var xs []Term
	for _, t := range ts {
		if t.S == "true" {
			continue
		}
		if t.S == "false" {
			return False
		}
		xs = append(xs, t)
	}
	if len(xs) == 0 {
		return True
	}
	if len(xs) == 1 {
		return xs[0]
	}
	return mk(SBool, "and", xs...)
}
func Or(ts ...Term) Term {
	var xs []Term
	for _, t := range ts {
		if t.S == "false" {
			continue
		}
		if t.S == "true" {
			return True
		}
		xs = append(xs, t)
	}
	if len(xs) == 0 {
		return False
	}
	if len(xs) == 1 {
		return xs[0]
	}
	return mk(SBool, "or", xs...)
}
func Not(t Term) Term {
	if t.S == "true" {
		return False
	}
	if t.S == "false" {
		return True
	}
	if strings.HasPrefix(t.S, "(not ") {
		return Term{t.S[5 : len(t.S)-1], SBool}
	}
	return mk(SBool, "not", t)
}
func Implies(a, b Term) Term {
	if a.S == "true" {
		return b
	}
	if a.S == "false" || b.S == "true" {
		return True
	}
	return mk(SBool, "=>", a, b)
}
func Eq(a, b Term) Term {
	if a.S == b.S {
		return True
	}
	return mk(SBool, "=", a, b)
}
func Ite(c, a, b Term) Term {
	if c.S == "true" {
		return a
	}
	if c.S == "false" {
		return b
	}
	if a.S == b.S {
		return a
	}
	return mk(a.Sort, "ite", c, a, b)
}
func Add(a, b Term) Term {
	if b.S == "0" {
		return a
	}
	if a.S == "0" {
		return b
	}
	// fold small literal arithmetic
	if x, ok := litVal(a); ok {
		if y, ok := litVal(b); ok {
			return IntLit(x + y)
		}
	}
	return mk(SInt, "+", a, b)
}
func Sub(a, b Term) Term {
	if b.S == "0" {
		return a
	}
	if x, ok := litVal(a); ok {
		if y, ok := litVal(b); ok {
			return IntLit(x - y)
		}
	}
	return mk(SInt, "-", a, b)
}
func Mul(a, b Term) Term {
	if x, ok := litVal(a); ok {
		if y, ok := litVal(b); ok && abs64(x) < 1<<30 && abs64(y) < 1<<30 {
			return IntLit(x * y)
		}
	}
	return mk(SInt, "*", a, b)
}
func abs64(x int64) int64 {
	if x < 0 {
		return -x
	}
	return x
}
func litVal(t Term) (int64, bool) {
	if t.Sort != SInt {
		return 0, false
	}
	s := t.S
	neg := false
	if strings.HasPrefix(s, "(- ") && strings.HasSuffix(s, ")") {
		s = s[3 : len(s)-1]
		neg = true
	}
	v, err := strconv.ParseInt(s, 10, 64)
	if err != nil {
		return 0, false
	}
	if neg {
		v = -v
	}
	return v, true
}
func Le(a, b Term) Term { return mk(SBool, "<=", a, b) }
func Lt(a, b Term) Term { return mk(SBool, "<", a, b) }
func Ge(a, b Term) Term { return mk(SBool, ">=", a, b) }
func Gt(a, b Term) Term { return mk(SBool, ">", a, b) }
func Div(a, b Term) Term { return mk(SInt, "div", a, b) }
func Mod(a, b Term) Term { return mk(SInt, "mod", a, b) }

func Select(arr, idx Term, elem Sort) Term { return mk(elem, "select", arr, idx) }
func Store(arr, idx, v Term) Term        { return mk(arr.Sort, "store", arr, idx, v) }

func ArraySort(idx, elem Sort) Sort { return Sort("(Array " + string(idx) + " " + string(elem) + ")") }

// slice datatype helpers
func MkSlice(ref, off, ln, cp Term) Term { return mk(SSlice, "mkS", ref, off, ln, cp) }
func sel1(op string, sort Sort, t Term) Term {
	// peephole: (s_ref (mkS a b c d)) -> a
	if strings.HasPrefix(t.S, "(mkS ") || strings.HasPrefix(t.S, "(mkC ") {
		parts := splitTop(t.S[1 : len(t.S)-1])
		idx := map[string]int{"s_ref": 1, "s_off": 2, "s_len": 3, "s_cap": 4, "c_kind": 1, "c_ref": 2}[op]
		if idx > 0 && idx < len(parts) {
			return Term{parts[idx], sort}
		}
	}
	return mk(sort, op, t)
}
func SRef(s Term) Term   { return sel1("s_ref", SInt, s) }
func SOff(s Term) Term   { return sel1("s_off", SInt, s) }
func SLen(s Term) Term   { return sel1("s_len", SInt, s) }
func SCap(s Term) Term   { return sel1("s_cap", SInt, s) }
func MkCont(k, r Term) Term { return mk(SCont, "mkC", k, r) }
func CKind(c Term) Term  { return sel1("c_kind", SInt, c) }
func CRef(c Term) Term   { return sel1("c_ref", SInt, c) }

var NilSlice = MkSlice(IntLit(0), IntLit(0), IntLit(0), IntLit(0))
var NilCont = MkCont(IntLit(0), IntLit(0))

// splitTop splits an s-expression body at top-level spaces.
func splitTop(s string) []string {
	var out []string
	depth := 0
	start := 0
	for i := 0; i < len(s); i++ {
		switch s[i] {
		case '(':
			depth++
		case ')':
			depth--
		case ' ':
			if depth == 0 {
				if i > start {
					out = append(out, s[start:i])
				}
				start = i + 1
			}
		}
	}
	if start < len(s) {
		out = append(out, s[start:])
	}
	return out
}

// ---------------------------------------------------------------------------
// Query construction

type Decl struct {
	Name string
	Sort Sort
}

// Prelude shared by all queries.
const preludeCore = `(declare-datatypes ((Slice 0)) (((mkS (s_ref Int) (s_off Int) (s_len Int) (s_cap Int)))))
(declare-datatypes ((Cont 0)) (((mkC (c_kind Int) (c_ref Int)))))
(declare-fun popcnt ((_ BitVec 64)) Int)
(declare-fun bvtz ((_ BitVec 64)) Int)
(declare-fun bvlz ((_ BitVec 64)) Int)
(declare-fun uf_and (Int Int) Int)
(declare-fun uf_or (Int Int) Int)
(declare-fun uf_xor (Int Int) Int)
(declare-fun uf_shl (Int Int) Int)
(declare-fun uf_shr (Int Int) Int)
`

// ---------------------------------------------------------------------------
// Solver runner

type SolverResult struct {
	Status string // unsat | sat | unknown | timeout | error
	Solver string
	Time   float64
	Output string
}

type solverSpec struct {
	name string
	args func(file string, timeoutS float64) []string
	pre  string
}

var solvers = map[string]solverSpec{
	"z3-new": {"z3-new", func(f string, t float64) []string {
		return []string{fmt.Sprintf("-T:%d", int(t+1)), "-smt2", f}
	}, z3Pre},
	"z3": {"z3", func(f string, t float64) []string {
		return []string{fmt.Sprintf("-T:%d", int(t+1)), "-smt2", f}
	}, z3Pre},
	// z3 5.1.0 with model-based quantifier instantiation off: pure E-matching. MBQI derails z3 on many goals that
	// E-matching alone closes in well under a second (measured on the Bitmap-level drivers). Only `unsat` answers matter:
	// without MBQI z3 gives up (unknown) earlier, it never turns a satisfiable query into unsat.
	"z3-nomb": {"z3-new", func(f string, t float64) []string {
		return []string{fmt.Sprintf("-T:%d", int(t+1)), "-smt2", f}
	}, z3Pre + "(set-option :smt.auto_config false)\n(set-option :smt.mbqi false)\n"},
	"cvc5": {"cvc5", func(f string, t float64) []string {
		return []string{fmt.Sprintf("--tlimit=%d", int(t*1000)), "--lang=smt2", f}
	}, "(set-logic ALL)\n"},
}

// z3 flattens nested sums before e-matching, which makes index patterns (+ off i) miss
// ground terms (+ off (+ k 1)); measured: 20 s timeout -> 0.02 s with flattening off.
const z3Pre = "(set-option :rewriter.flat false)\n"

var qcounter int64

var scratchDir string
var scratchOnce sync.Once

func scratch() string {
	scratchOnce.Do(func() {
		base := os.Getenv("VERIF_SCRATCH")
		if base == "" {
			base = "/var/tmp"
		}
		d, err := os.MkdirTemp(base, "rvc-")
		if err != nil {
			panic(err)
		}
		scratchDir = d
	})
	return scratchDir
}

func cleanupScratch() {
	if scratchDir != "" {
		os.RemoveAll(scratchDir)
	}
}

func runOne(parent context.Context, name, query string, timeoutS float64, wantModel bool) SolverResult {
	sp := solvers[name]
	h := sha256.Sum256([]byte(name + query))
	file := filepath.Join(scratch(), fmt.Sprintf("q-%x-%d-%s.smt2", h[:8], atomic.AddInt64(&qcounter, 1), name))
	body := sp.pre
	if name == "cvc5" && wantModel {
		body = "(set-option :produce-models true)\n" + body
	}
	body += query + "(check-sat)\n"
	if wantModel {
		body += "(get-model)\n"
	}
	if err := os.WriteFile(file, []byte(body), 0o644); err != nil {
		return SolverResult{Status: "error", Solver: name, Output: err.Error()}
	}
	defer os.Remove(file)
	ctx, cancel := context.WithTimeout(parent, time.Duration((timeoutS+3)*float64(time.Second)))
	defer cancel()
	cmd := exec.CommandContext(ctx, sp.name, sp.args(file, timeoutS)...)
	var out bytes.Buffer
	cmd.Stdout = &out
	cmd.Stderr = &out
	t0 := time.Now()
	_ = cmd.Run()
	el := time.Since(t0).Seconds()
	o := out.String()
	first := strings.TrimSpace(o)
	if i := strings.IndexByte(first, '\n'); i >= 0 {
		first = strings.TrimSpace(first[:i])
	}
	st := "unknown"
	switch {
	case first == "unsat":
		st = "unsat"
	case first == "sat":
		st = "sat"
	case first == "unknown":
		st = "unknown"
	case first == "timeout" || strings.Contains(o, "timeout") || ctx.Err() != nil:
		st = "timeout"
	case strings.Contains(first, "error") || strings.Contains(first, "Error"):
		st = "error"
	}
	if len(o) > 20000 {
		o = o[:20000]
	}
	return SolverResult{Status: st, Solver: name, Time: el, Output: o}
}

// solve races the portfolio: z3-new first with a short budget, then all three.
func solve(query string, budgetS float64, wantModel bool) SolverResult {
	first := budgetS
	if first > 4 {
		first = 4
	}
	var r SolverResult
	if os.Getenv("RVC_NOMB") == "0" {
		r = runOne(context.Background(), "z3-new", query, first, wantModel)
	} else {
		// stage 1: z3 5.1.0 in its default configuration and without MBQI, side by side
		c1, cancel1 := context.WithCancel(context.Background())
		ch1 := make(chan SolverResult, 2)
		for _, n := range []string{"z3-new", "z3-nomb"} {
			go func(n string) { ch1 <- runOne(c1, n, query, first, wantModel) }(n)
		}
		for i := 0; i < 2; i++ {
			x := <-ch1
			if x.Status == "unsat" || x.Status == "sat" {
				cancel1()
				return x
			}
			if x.Solver == "z3-new" || r.Solver == "" {
				r = x
			}
		}
		cancel1()
	}
	if r.Status == "unsat" || r.Status == "sat" {
		return r
	}
	if r.Status == "error" {
		// a malformed query is an engine defect: surface it
		return r
	}
	total := r.Time
	pctx, pcancel := context.WithCancel(context.Background())
	defer pcancel()
	ch := make(chan SolverResult, 4)
	names := []string{"z3", "cvc5"}
	if budgetS > first {
		names = append(names, "z3-new")
		if os.Getenv("RVC_NOMB") != "0" {
			names = append(names, "z3-nomb")
		}
	}
	for _, n := range names {
		go func(n string) { ch <- runOne(pctx, n, query, budgetS, wantModel) }(n)
	}
	best := r
	for range names {
		x := <-ch
		if x.Status == "unsat" || x.Status == "sat" {
			x.Time += total
			return x // the others are left to their own time limit
		}
		if x.Status != "error" {
			best = x
		}
	}
	best.Time += total
	return best
}

func runOneCtx(name, query string, timeoutS float64) SolverResult {
	return runOne(context.Background(), name, query, timeoutS, false)
}

// Canonical index shape: every element address is (+ root X) where root is the atomic
// offset of the slice the view derives from, so that a pattern (+ root i) written for a
// view starting at the root matches every ground access into that array.
func splitOff(off Term) (root, delta Term) {
	if strings.HasPrefix(off.S, "(+ ") {
		parts := splitTop(off.S[1 : len(off.S)-1])
		if len(parts) == 3 {
			return Term{parts[1], SInt}, Term{parts[2], SInt}
		}
	}
	if _, ok := litVal(off); ok {
		return IntLit(0), off
	}
	return off, IntLit(0)
}

// ElemIdx is the address of element i of slice s.
func ElemIdx(s Term, i Term) Term {
	root, delta := splitOff(SOff(s))
	// a quantified variable in absolute form "(- p base)" indexes straight to p
	base := Add(root, delta)
	if strings.HasPrefix(i.S, "(- ") && strings.HasSuffix(i.S, " "+base.S+")") {
		p := i.S[3 : len(i.S)-len(base.S)-2]
		if !strings.ContainsAny(p, " ()") {
			return Term{p, SInt}
		}
	}
	return Add(root, Add(delta, i))
}

// SubOff is the offset of s[lo:].
func SubOff(s Term, lo Term) Term {
	root, delta := splitOff(SOff(s))
	return Add(root, Add(delta, lo))
}
