package main

// Symbolic executor core: state, sorts of Go types, heap maps, fresh names,
// assumptions and obligations.

import (
	"fmt"
	"go/ast"
	"go/token"
	"go/types"
	"math/big"
	"os"
	"regexp"
	"sort"
	"strings"
)

type State struct {
	vars   map[types.Object]Term
	heap   map[string]Term
	pc     Term
	dead   bool
	cut    int            // index into the premise list at the innermost loop head this state is inside of (0: none)
	kinds  map[string]int // interface value term -> dynamic kind known on this path (type switch / assertion)
	probe  *[]string      // non-nil: heap reads resolve to formal parameters hp!<key> (recursive spec function bodies)
	leaves [][]Term       // conjunctions; pc implies their disjunction (joined paths, used to case-split hard obligations)
}

func (s *State) clone() *State {
	n := &State{vars: make(map[types.Object]Term, len(s.vars)), heap: make(map[string]Term, len(s.heap)), pc: s.pc, dead: s.dead, cut: s.cut}
	n.leaves = append([][]Term(nil), s.leaves...)
	if len(s.kinds) > 0 {
		n.kinds = make(map[string]int, len(s.kinds))
		for k, v := range s.kinds {
			n.kinds[k] = v
		}
	}
	for k, v := range s.vars {
		n.vars[k] = v
	}
	for k, v := range s.heap {
		n.heap[k] = v
	}
	return n
}

type Obligation struct {
	Name     string
	Func     string
	Kind     string
	Tag      string
	NAssump  int
	NDecl    int
	PC       Term
	Goal     Term
	Desc     string
	Pos      string
	Bounded  int // >0: depends on a loop unrolled K times with an unwinding assumption
	Smoke    bool
	Splits   [][]Term
	NSplit   int
	Cut      int    // premises before this index (other than the preconditions, global axioms and the definitions the query refers to) belong to code before the enclosing loop head
	ViewGoal string // goal body with placeholder @V@ when the goal is forall v in 0..65536 :: body
	// filled by the discharger
	Res     SolverResult
	exec    *Exec
	anc     map[string]bool
	NoSlice bool
	Replay  *ReplayPoint // post obligations: result terms and heap at the return (counterexample replay)
}

type ctlFrame struct {
	label    string
	isLoop   bool
	breaks   []*State
	conts    []*State
	isInline bool
	rets     []*State // for inline frames: states at return (results already stored in resVars)
}

type Exec struct {
	prog     *Program
	fn       *FuncInfo
	pkgShort string
	info     *types.Info
	contract *Contract
	opts     *Options

	decls     []string
	declared  map[string]bool
	assumps   []string
	atags     map[int]string // assumption index -> premise-selection tag
	actx      map[int]string // assumption index -> path condition under which it was introduced
	ctxPC     string
	ctxMark   int
	pcParents map[string][]string
	obls      []*Obligation
	nfresh    int
	wordMode  bool
	counters  map[string]int
	dtSorts   map[string]bool

	entry    *State // snapshot at function entry (for old())
	alloc0   Term
	frames   []*ctlFrame
	results  []types.Object // result variables of the function under verification
	resStack [][]types.Object

	boundedK    int      // current unwinding taint (0 = none)
	unrolled    []string // loops unrolled without invariant
	assumptions map[string]bool
	inlined     map[string]bool
	unsupported []string
	depth       int
	kindCodes   map[string]int
	curPos      token.Pos
	modRefs     []modLoc // own modifies set (entry-state locations)
	lemmaFacts  map[string]bool
	boxed       map[types.Object]bool
	noFrame     bool

	heapMetas       map[string]heapMeta
	defs            map[string]string
	freshRefs       map[string]bool
	declLog         []string
	loopOrds        map[ast.Node]int
	inlineContract  *Contract
	inlineStack     []string
	curPkg          *FuncInfo
	synth           []*types.Var
	dry             int
	dryStores       []dryStore
	typeCache       map[string]types.Type
	implCache       map[string][]types.Type
	entryVars       map[string]TV
	specPos         token.Pos
	specErrors      []string
	predFamilies    map[string][]string
	assumedSafe     map[string]bool
	synthAlias      []synthAlias
	premiseMode     bool
	anchorPick      int
	droppedLoops    map[int]bool
	mergeMap        map[string][]mergeAlt
	mergeSeq        []string
	predBranch      map[string]map[string]string // merged-state instance -> branch pc -> branch instance
	nJoinBridge     int
	predBridges     []predBridge
	nq              int
	recInProgress   map[string]bool
	recKeys         map[string][]string
	usedLemmas      []string
	revealOpaque    bool
	calledContracts map[string]bool
	bodyStart       int // premises before this index are preconditions / entry facts
	viewFacts       []viewFact
	pendingView     string // body (with placeholder) of the view-quantified goal being obliged
}

// viewFact: a premise of the form  forall v in 0..65536 :: B(v)  kept in instantiable form, so
// that goals of the same form can be proved at one shared skolem constant (set extensionality).
type viewFact struct {
	at   int // index of the parent premise in assumps
	pc   string
	body string // B with the placeholder @V@
	rng  string // "lo..hi" (literal bounds): facts are instantiated for goals over the same range
}

type modLoc struct {
	key    string // heap key
	earr   Term   // for fields of the elements of a slice of structs: the backing array; lo, hi = element index range
	ref    Term
	lo, hi Term // for element memories: index range [lo,hi); for fields unused
	isElem bool
	any    bool // any ref of this key (coarse)
	cond   Term // location only counts when cond holds (zero value: always)
}

func (m modLoc) when() Term {
	if m.cond.S == "" {
		return True
	}
	return m.cond
}

type Options struct {
	Unroll   int
	Budget   float64
	Smoke    bool
	Verbose  bool
	Jobs     int
	DumpDir  string
	NoInline bool
}

func (e *Exec) fresh(prefix string, sort Sort) Term {
	e.nfresh++
	name := fmt.Sprintf("%s!%d", sanitize(prefix), e.nfresh)
	e.declare(name, sort)
	return Term{name, sort}
}

func sanitize(s string) string {
	var b strings.Builder
	for _, c := range s {
		if (c >= 'a' && c <= 'z') || (c >= 'A' && c <= 'Z') || (c >= '0' && c <= '9') || c == '_' || c == '.' {
			b.WriteRune(c)
		} else {
			b.WriteByte('_')
		}
	}
	if b.Len() == 0 {
		return "t"
	}
	return b.String()
}

func (e *Exec) declare(name string, sort Sort) {
	if e.declared[name] {
		return
	}
	e.mark(name)
	e.decls = append(e.decls, fmt.Sprintf("(declare-fun %s () %s)", name, sort))
}

func (e *Exec) mark(key string) {
	e.declared[key] = true
	e.declLog = append(e.declLog, key)
}

func (e *Exec) rawDecl(key, text string) {
	if e.declared[key] {
		return
	}
	e.mark(key)
	e.decls = append(e.decls, text)
}

// assume adds a fact guarded by the current path condition.
func (e *Exec) assume(st *State, f Term) {
	if f.S == "true" {
		return
	}
	e.assumps = append(e.assumps, "(assert "+Implies(st.pc, f).S+")")
}

// globalAxiom appends a premise that is relevant on every path.
type synthAlias struct {
	name string
	ctr  *types.Var
}

type predBridge struct {
	from, to string
	ndecl    int
	text     string
	join     bool // bridge of a merged-state instance to a branch instance: included as soon as `from` occurs
}

// mergeAlt: at a control-flow join the merged name equals `term` under the branch's path condition pc.
type mergeAlt struct{ pc, term string }

func (e *Exec) noteMerge(name string, alts []mergeAlt) {
	if e.mergeMap == nil {
		e.mergeMap = map[string][]mergeAlt{}
	}
	e.mergeMap[name] = alts
	e.mergeSeq = append(e.mergeSeq, name)
}

func (e *Exec) nDecls() int { return len(e.decls) }

func (e *Exec) globalAxiom(text string) {
	e.syncCtx(e.ctxPC)
	e.assumps = append(e.assumps, text)
	e.actx[len(e.assumps)-1] = "true"
	e.ctxMark = len(e.assumps)
}

// syncCtx attributes the assumptions appended since the last sync to the path condition
// that was current, then switches to a new current path condition.
func (e *Exec) syncCtx(newCtx string) {
	for i := e.ctxMark; i < len(e.assumps); i++ {
		if _, ok := e.actx[i]; !ok {
			e.actx[i] = e.ctxPC
		}
	}
	e.ctxMark = len(e.assumps)
	e.ctxPC = newCtx
}

// reparentSince re-attributes assumptions appended since index n to ctx (used after a
// temporary path-condition extension whose definitions stay visible afterwards).
func (e *Exec) reparentSince(n int, ctx string) {
	for i := n; i < len(e.assumps); i++ {
		e.actx[i] = ctx
	}
	e.ctxMark = len(e.assumps)
	e.ctxPC = ctx
}

var pcNameRe = regexp.MustCompile(`pc![0-9]+`)

func (e *Exec) notePCDef(name string, def string) {
	e.pcParents[name] = pcNameRe.FindAllString(def, -1)
}

// pcAncestors is the set of named path conditions that pc is built from.
func (e *Exec) pcAncestors(pc string) map[string]bool {
	out := map[string]bool{}
	var walk func(string)
	walk = func(p string) {
		if out[p] {
			return
		}
		out[p] = true
		for _, q := range e.pcParents[p] {
			walk(q)
		}
	}
	for _, p := range pcNameRe.FindAllString(pc, -1) {
		walk(p)
	}
	return out
}

// assumeTagged adds a fact that belongs to a premise group: obligations of another
// group are first attempted without it (dropping premises is always sound).
func (e *Exec) assumeTagged(st *State, f Term, tag string) {
	n := len(e.assumps)
	e.assume(st, f)
	if tag != "" {
		for i := n; i < len(e.assumps); i++ {
			e.atags[i] = tag
		}
	}
}

// define adds an unguarded definition of a fresh constant.
func (e *Exec) assumeGlobal(f Term) {
	if f.S == "true" {
		return
	}
	e.assumps = append(e.assumps, "(assert "+f.S+")")
}

// bind gives a value a name when the term is large.
func (e *Exec) bind(prefix string, t Term) Term {
	if len(t.S) <= 48 {
		return t
	}
	if t.Sort == SSlice && strings.HasPrefix(t.S, "(mkS ") {
		// keep the constructor visible so that ref/off/len/cap stay syntactically accessible
		parts := splitTop(t.S[1 : len(t.S)-1])
		if len(parts) == 5 {
			var ps []Term
			for i, p := range parts[1:] {
				if i == 1 {
					// offsets keep their (+ root delta) shape
					root, delta := splitOff(Term{p, SInt})
					ps = append(ps, Add(root, e.bind(prefix+"_d", delta)))
					continue
				}
				ps = append(ps, e.bind(prefix+[]string{"_r", "_o", "_l", "_c"}[i], Term{p, SInt}))
			}
			return MkSlice(ps[0], ps[1], ps[2], ps[3])
		}
	}
	c := e.fresh(prefix, t.Sort)
	e.assumeGlobal(Eq(c, t))
	e.defs[c.S] = t.S
	return c
}

func (e *Exec) pos(p token.Pos) string {
	if !p.IsValid() {
		return ""
	}
	ps := e.prog.Fset.Position(p)
	f := ps.Filename
	if i := strings.LastIndex(f, "/"); i >= 0 {
		f = f[i+1:]
	}
	return fmt.Sprintf("%s:%d", f, ps.Line)
}

func (e *Exec) oblige(st *State, kind, tag string, goal Term, desc string, p token.Pos) {
	if st.dead {
		return
	}
	n := e.counters[kind]
	e.counters[kind] = n + 1
	name := fmt.Sprintf("%s/%s#%d", e.fn.Key, kind, n)
	e.obligeNamed(st, name, kind, tag, goal, desc, p)
	switch kind {
	case "idx", "nil", "div", "make": // not "slice": measured to derail otherwise quick proofs (array iremoveRange, iaddRange)
		if na := os.Getenv("RVC_NOASSUME"); na == "1" || strings.Contains(","+na+",", ","+kind+",") {
			break
		}
		// execution continues only when the check passed (otherwise the program panics): one defect, one report
		key := st.pc.S + "|" + goal.S
		if e.assumedSafe == nil {
			e.assumedSafe = map[string]bool{}
		}
		if !e.assumedSafe[key] && goal.S != "true" {
			e.assumedSafe[key] = true
			e.assume(st, goal)
		}
	}
}

func (e *Exec) obligeNamed(st *State, name, kind, tag string, goal Term, desc string, p token.Pos) {
	if st.dead {
		return
	}
	if e.depth > 0 {
		name += fmt.Sprintf("@inl%d", e.depth)
	}
	e.syncCtx(st.pc.S)
	e.obls = append(e.obls, &Obligation{Name: name, Func: e.fn.Key, Kind: kind, Tag: tag, NAssump: len(e.assumps), NDecl: len(e.decls),
		PC: st.pc, Goal: goal, Desc: desc, Pos: e.pos(p), Bounded: e.boundedK, Splits: append([][]Term(nil), st.leaves...), ViewGoal: e.pendingView, Cut: st.cut})
	e.pendingView = ""
}

func (e *Exec) note(kind, what string) {
	e.assumptions[kind+": "+what] = true
}

func (e *Exec) unsupportedf(p token.Pos, format string, a ...interface{}) {
	msg := fmt.Sprintf(format, a...)
	e.unsupported = append(e.unsupported, e.pos(p)+": "+msg)
}

// addPC returns a named path condition pc && c.
func (e *Exec) addPC(st *State, c Term) {
	if c.S == "true" {
		return
	}
	if st.pc.S == "true" && len(c.S) < 40 && !strings.Contains(c.S, "pc!") {
		e.syncCtx("true")
		st.pc = c
		return
	}
	n := e.fresh("pc", SBool)
	e.syncCtx(st.pc.S)
	e.assumeGlobal(Eq(n, And(st.pc, c)))
	e.defs[n.S] = And(st.pc, c).S
	e.notePCDef(n.S, And(st.pc, c).S)
	st.pc = n
	e.syncCtx(n.S)
}

// merge joins states at a control-flow join.
func (e *Exec) merge(states []*State) *State {
	var live []*State
	for _, s := range states {
		if s != nil && !s.dead {
			live = append(live, s)
		}
	}
	if len(live) == 0 {
		return &State{vars: map[types.Object]Term{}, heap: map[string]Term{}, pc: False, dead: true}
	}
	if len(live) == 1 {
		return live[0]
	}
	out := live[0].clone()
	for k, v := range out.kinds {
		for _, s := range live[1:] {
			if s.kinds[k] != v {
				delete(out.kinds, k)
				break
			}
		}
	}
	var pcs []Term
	for _, s := range live {
		pcs = append(pcs, s.pc)
	}
	npc := e.fresh("pc", SBool)
	e.syncCtx("true")
	e.assumeGlobal(Eq(npc, Or(pcs...)))
	e.defs[npc.S] = Or(pcs...).S
	e.notePCDef(npc.S, Or(pcs...).S)
	out.pc = npc
	e.syncCtx(npc.S)
	// leaf path conditions for case splitting
	var leaves [][]Term
	seen := map[string]bool{}
	for _, s := range live {
		if len(s.leaves) > 0 {
			for _, l := range s.leaves {
				c := append([]Term{s.pc}, l...)
				if len(c) > 3 {
					c = c[:3]
				}
				k := ""
				for _, t := range c {
					k += t.S + "&"
				}
				if !seen[k] {
					seen[k] = true
					leaves = append(leaves, c)
				}
			}
		} else {
			leaves = append(leaves, []Term{s.pc})
		}
	}
	if len(leaves) > 16 {
		leaves = nil
		for _, p := range pcs {
			leaves = append(leaves, []Term{p})
		}
	}
	out.leaves = leaves
	// variables
	keys := map[types.Object]bool{}
	for _, s := range live {
		for k := range s.vars {
			keys[k] = true
		}
	}
	var objs []types.Object
	for k := range keys {
		objs = append(objs, k)
	}
	sort.Slice(objs, func(i, j int) bool {
		if objs[i].Pos() != objs[j].Pos() {
			return objs[i].Pos() < objs[j].Pos()
		}
		return objs[i].Name() < objs[j].Name()
	})
	for _, k := range objs {
		first, ok := live[0].vars[k]
		same := ok
		inAll := ok
		for _, s := range live[1:] {
			v, ok2 := s.vars[k]
			if !ok2 {
				inAll = false
				break
			}
			if v.S != first.S {
				same = false
			}
		}
		if !inAll {
			delete(out.vars, k) // declared in one branch only: out of scope after the join
			continue
		}
		if same {
			continue
		}
		nv := e.fresh(k.Name(), first.Sort)
		var alts []mergeAlt
		for _, s := range live {
			e.assumeGlobal(Implies(s.pc, Eq(nv, s.vars[k])))
			alts = append(alts, mergeAlt{s.pc.S, s.vars[k].S})
		}
		e.noteMerge(nv.S, alts)
		out.vars[k] = nv
	}
	hkeys := map[string]bool{}
	for _, s := range live {
		for k := range s.heap {
			hkeys[k] = true
		}
	}
	var hk []string
	for k := range hkeys {
		hk = append(hk, k)
	}
	sort.Strings(hk)
	for _, k := range hk {
		first := e.heapGet(live[0], k)
		same := true
		for _, s := range live[1:] {
			if e.heapGet(s, k).S != first.S {
				same = false
			}
		}
		if same {
			out.heap[k] = first
			continue
		}
		nv := e.fresh(k, first.Sort)
		var alts []mergeAlt
		for _, s := range live {
			e.assumeGlobal(Implies(s.pc, Eq(nv, e.heapGet(s, k))))
			alts = append(alts, mergeAlt{s.pc.S, e.heapGet(s, k).S})
		}
		e.noteMerge(nv.S, alts)
		out.heap[k] = nv
	}
	return out
}

// contOf is the interface value holding the pointer ptr of dynamic type code; when ptr was
// obtained by narrowing an interface value x on this path, that value itself is returned.
func (st *State) contOf(code int, ptr Term) Term {
	if strings.HasPrefix(ptr.S, "(c_ref ") {
		x := ptr.S[len("(c_ref ") : len(ptr.S)-1]
		if st != nil && st.kinds[x] == code {
			return Term{x, SCont}
		}
	}
	return MkCont(IntLit(int64(code)), ptr)
}

func (st *State) learnKind(x Term, code int) {
	if st.kinds == nil {
		st.kinds = map[string]int{}
	}
	st.kinds[x.S] = code
}

func sameTerms(a, b []Term) bool {
	if len(a) != len(b) {
		return false
	}
	for i := range a {
		if a[i].S != b[i].S {
			return false
		}
	}
	return true
}

// ---------------------------------------------------------------------------
// Go types -> sorts

// varSort is the sort of a variable: uint64 variables declared `ints` in the contract hold
// numbers (Int) even in a word-mode function.
func (e *Exec) varSort(o types.Object) Sort {
	if e.wordMode && o != nil && e.isIntVar(o.Name()) {
		if b, ok := types.Unalias(o.Type()).Underlying().(*types.Basic); ok && b.Kind() == types.Uint64 {
			return SInt
		}
	}
	return e.sortOf(o.Type())
}

func (e *Exec) isIntVar(name string) bool {
	ct := e.contract
	if e.depth > 0 {
		ct = e.inlineContract
	}
	if ct == nil {
		return false
	}
	for _, n := range ct.Ints {
		if n == name {
			return true
		}
	}
	return false
}

// resultSort: sort of result i of a contracted callee as seen by its callers.
func (e *Exec) resultSort(ct *Contract, i int, rt types.Type) Sort {
	if ct != nil {
		for _, n := range ct.Ints {
			if n == "res" || n == fmt.Sprintf("res%d", i) {
				if b, ok := types.Unalias(rt).Underlying().(*types.Basic); ok && b.Kind() == types.Uint64 {
					return SInt
				}
			}
		}
	}
	return e.sortOf(rt)
}

func (e *Exec) isWord(t types.Type) bool {
	b, ok := t.Underlying().(*types.Basic)
	return ok && b.Kind() == types.Uint64 && e.wordMode
}

func namedName(t types.Type) string {
	switch x := t.(type) {
	case *types.Named:
		n := x.Obj().Name()
		if x.Obj().Pkg() != nil {
			pn := x.Obj().Pkg().Name()
			if pn != "roaring" {
				n = pn + "_" + n
			}
		}
		return n
	case *types.Alias:
		return namedName(types.Unalias(t))
	}
	return ""
}

// typeKey is a stable identifier for a Go type used in heap-map names.
func typeKey(t types.Type) string {
	t = types.Unalias(t)
	switch x := t.(type) {
	case *types.Named:
		return namedName(x)
	case *types.Basic:
		// byte/uint8 and rune/int32 are identical types with two names: one memory each
		switch x.Kind() {
		case types.Uint8:
			return "byte"
		case types.Int32:
			return "int32"
		}
		return x.Name()
	case *types.Pointer:
		return "p_" + typeKey(x.Elem())
	case *types.Slice:
		return "s_" + typeKey(x.Elem())
	case *types.Array:
		return fmt.Sprintf("a%d_%s", x.Len(), typeKey(x.Elem()))
	case *types.Interface:
		return "iface"
	case *types.Struct:
		return "anonstruct"
	case *types.Signature:
		return "func"
	case *types.Map:
		return "map"
	case *types.Chan:
		return "chan"
	}
	return sanitize(t.String())
}

// sortOf maps a Go type to its SMT sort. Element memories of []uint64 are always bit-vectors.
func (e *Exec) sortOf(t types.Type) Sort {
	t = types.Unalias(t)
	switch x := t.Underlying().(type) {
	case *types.Basic:
		switch {
		case x.Info()&types.IsBoolean != 0:
			return SBool
		case x.Kind() == types.Uint64 && e.wordMode:
			return SBV64
		case x.Info()&types.IsInteger != 0:
			return SInt
		case x.Kind() == types.UntypedNil:
			return SInt
		}
		return SInt // strings, floats: opaque
	case *types.Pointer:
		return SInt
	case *types.Slice:
		return SSlice
	case *types.Interface:
		return SCont
	case *types.Struct:
		return e.structSort(t, x)
	case *types.Array:
		return ArraySort(SInt, e.elemSort(x.Elem()))
	case *types.Signature, *types.Map, *types.Chan:
		return SInt
	}
	return SInt
}

// elemSort is the sort of a value as stored in memory (heap). uint64 elements of
// slices are bit-vectors regardless of the function's mode.
func (e *Exec) elemSort(t types.Type) Sort {
	if b, ok := types.Unalias(t).Underlying().(*types.Basic); ok && b.Kind() == types.Uint64 {
		return SBV64
	}
	return e.sortOf(t)
}

func (e *Exec) structSort(t types.Type, st *types.Struct) Sort {
	name := namedName(t)
	if name == "" {
		name = "anon"
		for i := 0; i < st.NumFields(); i++ {
			name += "_" + st.Field(i).Name()
		}
	}
	sname := "S_" + name
	if !e.declared["sort:"+sname] {
		var fs []string
		for i := 0; i < st.NumFields(); i++ {
			f := st.Field(i)
			fs = append(fs, fmt.Sprintf("(%s_%s %s)", name, f.Name(), e.sortOf(f.Type())))
		}
		if len(fs) == 0 {
			fs = append(fs, fmt.Sprintf("(%s__dummy Int)", name))
		}
		e.rawDecl("sort:"+sname, fmt.Sprintf("(declare-datatypes ((%s 0)) (((mk_%s %s))))", sname, name, strings.Join(fs, " ")))
	}
	return Sort(sname)
}

func structName(t types.Type) string {
	n := namedName(t)
	if n != "" {
		return n
	}
	if st, ok := t.Underlying().(*types.Struct); ok {
		n = "anon"
		for i := 0; i < st.NumFields(); i++ {
			n += "_" + st.Field(i).Name()
		}
	}
	return n
}

func (e *Exec) mkStruct(t types.Type, fields []Term) Term {
	s := e.sortOf(t)
	name := structName(t)
	if len(fields) == 0 {
		fields = []Term{IntLit(0)}
	}
	return mk(s, "mk_"+name, fields...)
}

func (e *Exec) structField(t types.Type, v Term, i int) Term {
	st := t.Underlying().(*types.Struct)
	f := st.Field(i)
	name := structName(t)
	// peephole on constructor
	if strings.HasPrefix(v.S, "(mk_"+name+" ") {
		parts := splitTop(v.S[1 : len(v.S)-1])
		if i+1 < len(parts) {
			return Term{parts[i+1], e.sortOf(f.Type())}
		}
	}
	return mk(e.sortOf(f.Type()), name+"_"+f.Name(), v)
}

func intRange(b *types.Basic) (lo, hi string, ok bool) {
	switch b.Kind() {
	case types.Uint8:
		return "0", "255", true
	case types.Uint16:
		return "0", "65535", true
	case types.Uint32:
		return "0", "4294967295", true
	case types.Uint64, types.Uint, types.Uintptr:
		return "0", "18446744073709551615", true
	case types.Int8:
		return "-128", "127", true
	case types.Int16:
		return "-32768", "32767", true
	case types.Int32:
		return "-2147483648", "2147483647", true
	case types.Int64, types.Int:
		return "-9223372036854775808", "9223372036854775807", true
	}
	return "", "", false
}

// rangeFact is the type invariant of a value of Go type t held in term v.
func (e *Exec) rangeFact(v Term, t types.Type) Term {
	t = types.Unalias(t)
	switch x := t.Underlying().(type) {
	case *types.Basic:
		if v.Sort != SInt {
			return True
		}
		if lo, hi, ok := intRange(x); ok {
			return And(Le(IntLitS(lo), v), Le(v, IntLitS(hi)))
		}
	case *types.Slice:
		return And(Le(IntLit(0), SRef(v)), Le(IntLit(0), SOff(v)), Le(IntLit(0), SLen(v)), Le(SLen(v), SCap(v)),
			Le(SCap(v), IntLit(1<<47)), Le(SOff(v), IntLit(1<<48)),
			Implies(Eq(SRef(v), IntLit(0)), And(Eq(SLen(v), IntLit(0)), Eq(SCap(v), IntLit(0)))))
	case *types.Pointer:
		return True // separately allocated objects are positive, element objects of slices of structs negative, nil is 0
	case *types.Interface:
		return And(Le(IntLit(0), CKind(v)), Implies(Eq(CKind(v), IntLit(0)), Eq(CRef(v), IntLit(0))))
	case *types.Struct:
		var fs []Term
		for i := 0; i < x.NumFields(); i++ {
			fs = append(fs, e.rangeFact(e.structField(t, v, i), x.Field(i).Type()))
		}
		return And(fs...)
	}
	return True
}

// allocFact: every reference inside v is below the allocation frontier.
func (e *Exec) allocFact(v Term, t types.Type, alloc Term) Term {
	t = types.Unalias(t)
	switch x := t.Underlying().(type) {
	case *types.Slice:
		return Lt(SRef(v), alloc)
	case *types.Pointer:
		return Lt(v, alloc)
	case *types.Interface:
		return Lt(CRef(v), alloc)
	case *types.Struct:
		var fs []Term
		for i := 0; i < x.NumFields(); i++ {
			fs = append(fs, e.allocFact(e.structField(t, v, i), x.Field(i).Type(), alloc))
		}
		return And(fs...)
	}
	return True
}

func (e *Exec) zero(t types.Type) Term {
	t = types.Unalias(t)
	switch x := t.Underlying().(type) {
	case *types.Basic:
		switch {
		case x.Info()&types.IsBoolean != 0:
			return False
		case x.Kind() == types.Uint64 && e.wordMode:
			return BVLit(0)
		}
		return IntLit(0)
	case *types.Slice:
		return NilSlice
	case *types.Interface:
		return NilCont
	case *types.Struct:
		var fs []Term
		for i := 0; i < x.NumFields(); i++ {
			fs = append(fs, e.zero(x.Field(i).Type()))
		}
		return e.mkStruct(t, fs)
	case *types.Array:
		es := e.elemSort(x.Elem())
		z := e.zeroElem(x.Elem())
		return Term{fmt.Sprintf("((as const %s) %s)", ArraySort(SInt, es), z.S), ArraySort(SInt, es)}
	}
	return IntLit(0)
}

func (e *Exec) zeroElem(t types.Type) Term {
	if e.elemSort(t) == SBV64 {
		return BVLit(0)
	}
	return e.zero(t)
}

// ---------------------------------------------------------------------------
// Heap

func elemKey(t types.Type) string { return "M_" + typeKey(t) }
func fieldKey(structT types.Type, field string) string {
	return "F_" + structName(structT) + "_" + field
}

func (e *Exec) heapSort(key string, valSort Sort) Sort {
	if strings.HasPrefix(key, "M_") {
		return ArraySort(SInt, ArraySort(SInt, valSort))
	}
	return ArraySort(SInt, valSort)
}

type heapMeta struct {
	sort  Sort
	vsort Sort
	vtype types.Type
}

func (e *Exec) heapInit(key string, vtype types.Type) {
	if !e.declared["heap:"+key] {
		vs := e.sortOf(vtype)
		if strings.HasPrefix(key, "M_") {
			vs = e.elemSort(vtype)
		}
		e.heapMetas[key] = heapMeta{e.heapSort(key, vs), vs, vtype}
		e.mark("heap:" + key)
		e.declareHeapVersion(key, key+"!0")
	}
}

// declareHeapVersion declares a (base) version of a heap map together with the type
// invariant of everything stored in it.
func (e *Exec) declareHeapVersion(key, name string) Term {
	return e.declareHeapVersionAt(key, name, e.alloc0)
}

// declareHeapVersionAt declares a base version of a heap map that exists when the allocation
// frontier is alloc: type invariants of the stored values, and "every reference stored in an
// allocated object is itself allocated".
func (e *Exec) declareHeapVersionAt(key, name string, alloc Term) Term {
	m := e.heapMetas[key]
	e.declare(name, m.sort)
	t := Term{name, m.sort}
	if strings.HasPrefix(key, "M_") {
		r := Term{"r!q", SInt}
		i := Term{"i!q", SInt}
		v := Select(Select(t, r, ArraySort(SInt, m.vsort)), i, m.vsort)
		f := e.rangeFact(v, m.vtype)
		if af := e.allocFact(v, m.vtype, alloc); af.S != "true" {
			f = And(f, Implies(Lt(r, alloc), af))
		}
		if f.S != "true" {
			e.globalAxiom(fmt.Sprintf("(assert (forall ((r!q Int) (i!q Int)) (! %s :pattern (%s))))", f.S, v.S))
		}
	} else {
		r := Term{"r!q", SInt}
		v := Select(t, r, m.vsort)
		f := e.rangeFact(v, m.vtype)
		if af := e.allocFact(v, m.vtype, alloc); af.S != "true" {
			f = And(f, Implies(Lt(r, alloc), af))
		}
		if f.S != "true" {
			e.globalAxiom(fmt.Sprintf("(assert (forall ((r!q Int)) (! %s :pattern (%s))))", f.S, v.S))
		}
	}
	return t
}

func (e *Exec) heapGet(st *State, key string) Term {
	if st.probe != nil {
		found := false
		for _, k := range *st.probe {
			if k == key {
				found = true
			}
		}
		if !found {
			*st.probe = append(*st.probe, key)
		}
		return Term{"hp!" + key, e.heapMetas[key].sort}
	}
	if t, ok := st.heap[key]; ok {
		return t
	}
	if key == "alloc" {
		return e.alloc0
	}
	m, ok := e.heapMetas[key]
	if !ok {
		panic("heap key used before init: " + key)
	}
	return Term{key + "!0", m.sort}
}

func (e *Exec) heapHavoc(st *State, key string) Term {
	e.nfresh++
	name := fmt.Sprintf("%s!%d", key, e.nfresh)
	t := e.declareHeapVersionAt(key, name, e.allocGet(st))
	st.heap[key] = t
	return t
}

func (e *Exec) allocGet(st *State) Term {
	if t, ok := st.heap["alloc"]; ok {
		return t
	}
	return e.alloc0
}

// allocRef returns a fresh reference.
func (e *Exec) allocRef(st *State, what string) Term {
	a := e.allocGet(st)
	r := e.fresh("ref_"+what, SInt)
	e.assumeGlobal(Eq(r, a))
	e.freshRefs[r.S] = true
	na := e.fresh("alloc", SInt)
	e.assumeGlobal(Eq(na, Add(a, IntLit(1))))
	st.heap["alloc"] = na
	return r
}

// Slices of (non-value) structs: element i of the backing array a is an OBJECT at the reference eref(a, i); its
// fields live in the ordinary field maps. eref is injective and its values are negative, hence distinct from every
// separately allocated object (those are positive) and from nil. &s[i] is that reference (interior pointer).
func isObjElem(t types.Type) bool {
	_, ok := types.Unalias(t).Underlying().(*types.Struct)
	return ok && !isValueStruct(t)
}

func (e *Exec) needEref() {
	if e.declared["eref"] {
		return
	}
	e.mark("eref")
	e.rawDecl("fun:eref", "(declare-fun eref (Int Int) Int)")
	e.rawDecl("fun:einv1", "(declare-fun einv1 (Int) Int)")
	e.rawDecl("fun:einv2", "(declare-fun einv2 (Int) Int)")
	e.globalAxiom("(assert (forall ((a!e Int) (i!e Int)) (! (and (= (einv1 (eref a!e i!e)) a!e) (= (einv2 (eref a!e i!e)) i!e) (< (eref a!e i!e) 0)) :pattern ((eref a!e i!e)))))")
}

func (e *Exec) elemRef(s Term, i Term) Term {
	e.needEref()
	return mk(SInt, "eref", SRef(s), ElemIdx(s, i))
}

// isErefIn: x is the reference of an element of array a with index in [lo,hi)
func isErefIn(x, a, lo, hi Term) Term {
	return And(Eq(mk(SInt, "einv1", x), a), Le(lo, mk(SInt, "einv2", x)), Lt(mk(SInt, "einv2", x), hi), Eq(x, mk(SInt, "eref", mk(SInt, "einv1", x), mk(SInt, "einv2", x))))
}

// loadElem reads s[i] (no bounds obligation here).
func (e *Exec) loadElem(st *State, s Term, elemT types.Type, i Term) Term {
	if isObjElem(elemT) {
		return e.loadObject(st, elemT, e.elemRef(s, i))
	}
	key := elemKey(elemT)
	e.heapInit(key, elemT)
	m := e.heapMetas[key]
	h := e.heapGet(st, key)
	return Select(Select(h, SRef(s), ArraySort(SInt, m.vsort)), ElemIdx(s, i), m.vsort)
}

func (e *Exec) storeElem(st *State, s Term, elemT types.Type, i Term, v Term) {
	if isObjElem(elemT) {
		e.storeObject(st, elemT, e.elemRef(s, i), v)
		return
	}
	key := elemKey(elemT)
	e.heapInit(key, elemT)
	m := e.heapMetas[key]
	h := e.heapGet(st, key)
	isort := ArraySort(SInt, m.vsort)
	inner := e.bindLocal("arr", Select(h, SRef(s), isort))
	idx := e.bindLocal("ix", ElemIdx(s, i))
	ni := e.fresh("arr", isort)
	e.assumeGlobal(Eq(ni, Store(inner, idx, v)))
	e.defs[ni.S] = Store(inner, idx, v).S
	// forward propagation: every known element of the old array is an element of the new one
	// (logically implied by the store; stated for its trigger on the OLD array)
	x := Term{"x!p", SInt}
	e.assumps = append(e.assumps, fmt.Sprintf("(assert (forall ((x!p Int)) (! (=> (not (= x!p %s)) (= %s %s)) :pattern (%s))))",
		idx.S, Select(ni, x, m.vsort).S, Select(inner, x, m.vsort).S, Select(inner, x, m.vsort).S))
	st.heap[key] = e.bindHeap(key, Store(h, SRef(s), ni))
}

func (e *Exec) bindHeap(key string, t Term) Term {
	e.nfresh++
	name := fmt.Sprintf("%s!%d", key, e.nfresh)
	e.declare(name, t.Sort)
	c := Term{name, t.Sort}
	e.assumeGlobal(Eq(c, t))
	e.defs[name] = t.S
	return c
}

func (e *Exec) loadField(st *State, structT types.Type, field *types.Var, ref Term) Term {
	key := fieldKey(structT, field.Name())
	e.heapInit(key, field.Type())
	m := e.heapMetas[key]
	return Select(e.heapGet(st, key), ref, m.vsort)
}

func (e *Exec) storeField(st *State, structT types.Type, field *types.Var, ref Term, v Term) {
	key := fieldKey(structT, field.Name())
	e.heapInit(key, field.Type())
	h := e.heapGet(st, key)
	st.heap[key] = e.bindHeap(key, Store(h, ref, v))
}

// convert between the Int and bit-vector view of a uint64 when a function in int
// mode touches []uint64 elements (rare; flagged).
func (e *Exec) toSort(v Term, want Sort) Term {
	if v.Sort == want {
		return v
	}
	if v.Sort == SBV64 && want == SInt {
		if strings.HasPrefix(v.S, "((_ int2bv 64) ") {
			return Mod(Term{v.S[len("((_ int2bv 64) ") : len(v.S)-1], SInt}, pow2(64))
		}
		if strings.HasPrefix(v.S, "(bvadd ") {
			// a sum of words read as a number: sum of the parts modulo 2^64
			parts := splitTop(v.S[1 : len(v.S)-1])
			if len(parts) == 3 {
				a := e.toSort(Term{parts[1], SBV64}, SInt)
				b := e.toSort(Term{parts[2], SBV64}, SInt)
				return Mod(Add(a, b), pow2(64))
			}
		}
		if strings.HasPrefix(v.S, "#x") && len(v.S) == 18 {
			n := new(big.Int)
			n.SetString(v.S[2:], 16)
			return IntLitS(n.String())
		}
		return mk(SInt, "bv2nat", v)
	}
	if v.Sort == SInt && want == SBV64 {
		if n, ok := litVal(v); ok && n >= 0 {
			return BVLit(uint64(n))
		}
		// integer literals (also those beyond int64) become word literals, so that the bit library's constant patterns match
		if n, ok := new(big.Int).SetString(v.S, 10); ok && n.Sign() >= 0 && n.BitLen() <= 64 {
			return BVLit(n.Uint64())
		}
		return mk(SBV64, "(_ int2bv 64)", v)
	}
	return v
}

func deref(t types.Type) types.Type {
	if p, ok := types.Unalias(t).Underlying().(*types.Pointer); ok {
		return p.Elem()
	}
	return t
}
