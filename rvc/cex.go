package main

// Counterexample replay. When a solver answers `sat` for an obligation of kind post / idx / slice / nil / div /
// make / panic, its model describes concrete values of the function's parameters and of the entry heap. This file
// (1) reads those values out of the model (interactive z3 session, `get-value` on the terms of the memory model),
// (2) writes an in-package Go test that builds exactly that input (objects and arrays shared where the model shares
//     them), calls the REAL function and observes it, and
// (3) runs that test against the repository with `go test -overlay` (nothing is written into the repository).
//
// Confirmation rules (a counterexample is only reported as a failing input when the real code confirms it):
//   * safety kinds: the real call panics;
//   * post: the real results and the real post-state of everything reachable from the parameters and results are
//     equal, including object identity (which results are parameters' objects, which are new), to the model's
//     results and post-state - the state on which the solver evaluated the clause to false.
// Everything else (model not expressible as Go values, opaque spec functions in the query, outputs that differ from
// the model because the model picked a behaviour of a callee/loop that its contract allows but the code does not
// have) is "not confirmed": the violation is still reported, with no-failing-input-found.

import (
	"bufio"
	"bytes"
	"fmt"
	"go/ast"
	"go/types"
	"io"
	"os"
	"os/exec"
	"path/filepath"
	"regexp"
	"sort"
	"strconv"
	"strings"
	"time"
)

type ReplayPoint struct {
	Results []TV
	Heap    map[string]Term
}

type cexResult struct {
	Confirmed bool
	Input     string // human-readable description of the failing input
	Verdict   string // what the real code did
	TestSrc   string
	Log       string
	Why       string // reason when no replay was possible
	PkgRel    string // package directory relative to the repository root
}

type mdlSession struct {
	cmd *exec.Cmd
	in  io.WriteCloser
	out *bufio.Reader
	n   int
}

func startModel(query string, timeoutS int) (*mdlSession, error) {
	cmd := exec.Command("z3-new", "-in", "-smt2", "-T:180", fmt.Sprintf("-t:%d", timeoutS*1000))
	in, _ := cmd.StdinPipe()
	op, _ := cmd.StdoutPipe()
	cmd.Stderr = nil
	if err := cmd.Start(); err != nil {
		return nil, err
	}
	m := &mdlSession{cmd: cmd, in: in, out: bufio.NewReaderSize(op, 1<<20)}
	io.WriteString(in, "(set-option :produce-models true)\n"+z3Pre+query+"(check-sat)\n")
	line, err := m.out.ReadString('\n')
	if err != nil || strings.TrimSpace(line) != "sat" {
		m.close()
		return nil, fmt.Errorf("model session: expected sat, got %q", strings.TrimSpace(line))
	}
	return m, nil
}

func (m *mdlSession) close() {
	m.in.Close()
	done := make(chan struct{})
	go func() { m.cmd.Wait(); close(done) }()
	select {
	case <-done:
	case <-time.After(2 * time.Second):
		m.cmd.Process.Kill()
	}
}

// values evaluates scalar terms in the model. Results are the printed values ("5", "(- 5)", "true", "#x00ff").
func (m *mdlSession) values(terms []string) ([]string, error) {
	if len(terms) == 0 {
		return nil, nil
	}
	m.n += len(terms)
	if m.n > 400000 {
		return nil, fmt.Errorf("model too large")
	}
	var out []string
	for lo := 0; lo < len(terms); lo += 2000 {
		hi := lo + 2000
		if hi > len(terms) {
			hi = len(terms)
		}
		// one eval per term keeps the parsing trivial: z3 prints one value per (eval ..)
		var b strings.Builder
		for _, t := range terms[lo:hi] {
			b.WriteString("(eval ")
			b.WriteString(t)
			b.WriteString(" :completion true)\n")
		}
		b.WriteString("(echo \"@@done\")\n")
		if _, err := io.WriteString(m.in, b.String()); err != nil {
			return nil, err
		}
		for {
			line, err := m.out.ReadString('\n')
			if err != nil {
				return nil, err
			}
			line = strings.TrimSpace(line)
			if line == "@@done" || line == "\"@@done\"" {
				break
			}
			if strings.HasPrefix(line, "(error") {
				return nil, fmt.Errorf("solver: %s", line)
			}
			out = append(out, line)
		}
		if len(out) != hi {
			return nil, fmt.Errorf("model session: %d values for %d terms", len(out), hi)
		}
	}
	return out, nil
}

func parseIntVal(s string) (int64, bool) {
	s = strings.TrimSpace(s)
	neg := false
	if strings.HasPrefix(s, "(-") && strings.HasSuffix(s, ")") {
		neg = true
		s = strings.TrimSpace(s[2 : len(s)-1])
	}
	if strings.HasPrefix(s, "#x") {
		u, err := strconv.ParseUint(s[2:], 16, 64)
		return int64(u), err == nil
	}
	v, err := strconv.ParseInt(s, 10, 64)
	if err != nil {
		// values between 2^63 and 2^64 (uint64 as a number)
		u, err2 := strconv.ParseUint(s, 10, 64)
		if err2 != nil || neg {
			return 0, false
		}
		return int64(u), true
	}
	if neg {
		v = -v
	}
	return v, true
}

// ---------------------------------------------------------------------------

type cexArr struct {
	name   string
	elemT  types.Type
	ref    int64
	size   int
	walked map[int]bool
	key    string
}

type cexGen struct {
	e       *Exec
	m       *mdlSession
	qual    types.Qualifier
	imports map[string]string
	decls   []string // variable declarations
	inits   []string // assignments that build the input
	objs    map[string]string // "T@ref" -> variable
	arrs    map[string]*cexArr
	arrList []*cexArr
	refVars map[string]string // memory@reference -> variable of the input object / array
	objSym  map[int64]string  // object reference -> symbolic term
	objType map[int64]types.Type
	err     error
	nvar    int
	// expectation side
	xdecl  []string
	xinit  []string
	xobjs  map[string]string
	desc   []string
	alloc0 int64
	want   []string // extra constraints that would make the model replayable
}

func (g *cexGen) fail(format string, a ...interface{}) {
	if g.err == nil {
		g.err = fmt.Errorf(format, a...)
	}
}

func (g *cexGen) val(term string) string {
	if g.err != nil {
		return "0"
	}
	v, err := g.m.values([]string{term})
	if err != nil {
		g.fail("%v", err)
		return "0"
	}
	return v[0]
}

func (g *cexGen) intVal(term string) int64 {
	s := g.val(term)
	v, ok := parseIntVal(s)
	if !ok && g.err == nil {
		g.fail("unparsable model value %q for %s", s, term)
	}
	return v
}

func (g *cexGen) typeStr(t types.Type) string { return types.TypeString(t, g.qual) }

func (g *cexGen) heapTerm(heap map[string]Term, key string) (string, bool) {
	if _, ok := g.e.heapMetas[key]; !ok {
		return "", false
	}
	if heap != nil {
		if t, ok := heap[key]; ok {
			return t.S, true
		}
	}
	return key + "!0", true
}

// scalarLit renders a model value of a basic type as a Go expression.
func (g *cexGen) scalarLit(valStr string, t types.Type) (string, bool) {
	b, ok := types.Unalias(t).Underlying().(*types.Basic)
	if !ok {
		return "", false
	}
	ts := g.typeStr(t)
	switch {
	case b.Info()&types.IsBoolean != 0:
		if valStr == "true" || valStr == "false" {
			if ts == "bool" {
				return valStr, true
			}
			return ts + "(" + valStr + ")", true
		}
		return "", false
	case b.Info()&types.IsInteger != 0:
		v, ok := parseIntVal(valStr)
		if !ok {
			return "", false
		}
		if b.Info()&types.IsUnsigned != 0 {
			return fmt.Sprintf("%s(%d)", ts, uint64(v)), true
		}
		return fmt.Sprintf("%s(%d)", ts, v), true
	}
	return "", false
}

func isScalar(t types.Type) bool {
	b, ok := types.Unalias(t).Underlying().(*types.Basic)
	return ok && b.Info()&(types.IsBoolean|types.IsInteger) != 0
}

// kindType maps a dynamic-kind code of the model to the implementing Go type (a pointer to a named struct).
func (g *cexGen) kindType(code int64) types.Type {
	want := ""
	for k, c := range fixedKinds {
		if int64(c) == code {
			want = k
		}
	}
	for k, c := range g.e.kindCodes {
		if int64(c) == code {
			want = k
		}
	}
	if want == "" {
		return nil
	}
	for _, p := range g.e.prog.Pkgs {
		sc := p.Types.Scope()
		for _, n := range sc.Names() {
			tn, ok := sc.Lookup(n).(*types.TypeName)
			if !ok || tn.IsAlias() {
				continue
			}
			if typeKey(tn.Type()) == want {
				return tn.Type()
			}
			if pt := types.NewPointer(tn.Type()); typeKey(pt) == want {
				return pt
			}
		}
	}
	return nil
}

// build returns a Go expression for the value `term` of type t in the given heap (nil: entry heap), creating the
// objects and arrays it refers to.
func (g *cexGen) build(term string, t types.Type, heap map[string]Term) string {
	if g.err != nil {
		return "nil"
	}
	t = types.Unalias(t)
	switch x := t.Underlying().(type) {
	case *types.Basic:
		if !isScalar(t) {
			return g.zeroExpr(t) // strings, floats: opaque in the model
		}
		lit, ok := g.scalarLit(g.val(term), t)
		if !ok {
			g.fail("no literal for %s : %s", term, t)
			return "0"
		}
		return lit
	case *types.Pointer:
		r := g.intVal(term)
		if r == 0 {
			return "nil"
		}
		if r < 0 {
			if !g.e.declared["eref"] {
				g.want = append(g.want, fmt.Sprintf("(>= %s 0)", term))
			}
			g.fail("interior pointer in the model (element object)")
			return "nil"
		}
		st, ok := types.Unalias(x.Elem()).Underlying().(*types.Struct)
		if !ok {
			g.fail("pointer to %s", x.Elem())
			return "nil"
		}
		return g.object(r, term, x.Elem(), st, heap)
	case *types.Interface:
		k := g.intVal("(c_kind " + term + ")")
		r := g.intVal("(c_ref " + term + ")")
		if k == 0 && r == 0 {
			return "nil"
		}
		dt := g.kindType(k)
		if dt == nil || !types.AssignableTo(dt, t) {
			// the model is free to pick any dynamic type: restrict it to the implementations the engine knows
			var alts []string
			codes := map[string]int{}
			for kk, c := range fixedKinds {
				codes[kk] = c
			}
			for kk, c := range g.e.kindCodes {
				codes[kk] = c
			}
			for _, c := range codes {
				if it := g.kindType(int64(c)); it != nil && types.AssignableTo(it, t) {
					alts = append(alts, fmt.Sprintf("(= (c_kind %s) %d)", term, c))
				}
			}
			sort.Strings(alts)
			if len(alts) > 0 {
				g.want = append(g.want, "(or "+strings.Join(alts, " ")+" false)")
			}
			g.fail("dynamic kind %d of %s has no Go type", k, t)
			return "nil"
		}
		pt, ok := dt.(*types.Pointer)
		if !ok {
			g.fail("non-pointer dynamic type %s", dt)
			return "nil"
		}
		if !types.AssignableTo(dt, t) {
			g.fail("model gives %s the dynamic type %s which does not implement it", t, dt)
			return "nil"
		}
		st, ok := types.Unalias(pt.Elem()).Underlying().(*types.Struct)
		if !ok || r <= 0 {
			if ok {
				g.want = append(g.want, fmt.Sprintf("(> (c_ref %s) 0)", term))
			}
			g.fail("dynamic value of %s is not an allocated struct (ref %d)", t, r)
			return "nil"
		}
		return g.object(r, "(c_ref "+term+")", pt.Elem(), st, heap)
	case *types.Slice:
		return g.slice(term, x.Elem(), heap)
	case *types.Struct:
		if isValueStruct(t) {
			name := structName(t)
			var fs []string
			for i := 0; i < x.NumFields(); i++ {
				f := x.Field(i)
				fs = append(fs, f.Name()+": "+g.build(fmt.Sprintf("(%s_%s %s)", name, f.Name(), term), f.Type(), heap))
			}
			return g.typeStr(t) + "{" + strings.Join(fs, ", ") + "}"
		}
		g.fail("struct %s passed by value", t)
		return g.typeStr(t) + "{}"
	case *types.Map, *types.Chan, *types.Signature:
		if _, isSig := x.(*types.Signature); isSig {
			g.fail("function value")
		}
		return "nil"
	case *types.Array:
		g.fail("array value %s", t)
	}
	g.fail("unsupported type %s", t)
	return "nil"
}

func (g *cexGen) zeroExpr(t types.Type) string {
	return "*new(" + g.typeStr(t) + ")"
}

func (g *cexGen) object(r int64, sym string, elemT types.Type, st *types.Struct, heap map[string]Term) string {
	key := fmt.Sprintf("%s@%d", typeKey(elemT), r)
	if v, ok := g.objs[key]; ok {
		return v
	}
	if n, ok := elemT.(*types.Named); ok && n.Obj().Pkg() != g.e.fn.Pkg.Types {
		// fields of another package's struct cannot be set from here
		for i := 0; i < st.NumFields(); i++ {
			if !st.Field(i).Exported() {
				g.fail("object of %s (unexported fields of another package)", elemT)
				return "nil"
			}
		}
	}
	g.nvar++
	v := fmt.Sprintf("o%d", g.nvar)
	g.objs[key] = v
	if old, dup := g.objSym[r]; dup && (embeds(g.objType[r], elemT) || embeds(elemT, g.objType[r])) {
		// an object and a struct embedded in it share their reference in the model: ask for a model that keeps
		// separately built objects apart
		g.want = append(g.want, fmt.Sprintf("(distinct %s %s)", old, sym))
		g.fail("an object and its embedded struct at model reference %d", r)
	}
	g.objSym[r] = sym
	g.objType[r] = elemT
	g.refVars[key] = v
	g.decls = append(g.decls, fmt.Sprintf("%s := new(%s)", v, g.typeStr(elemT)))
	g.fields(v, elemT, st, sym, heap)
	return v
}

func (g *cexGen) fields(lv string, structT types.Type, st *types.Struct, r string, heap map[string]Term) {
	for i := 0; i < st.NumFields(); i++ {
		f := st.Field(i)
		if f.Name() == "_" {
			continue
		}
		if fs, ok := types.Unalias(f.Type()).Underlying().(*types.Struct); ok && !isValueStruct(f.Type()) {
			g.fields(lv+"."+f.Name(), f.Type(), fs, r, heap)
			continue
		}
		h, ok := g.heapTerm(heap, fieldKey(structT, f.Name()))
		if !ok {
			continue // the function and its contract never mention this field: zero value
		}
		ex := g.build(fmt.Sprintf("(select %s %s)", h, r), f.Type(), heap)
		if g.err != nil {
			return
		}
		g.inits = append(g.inits, fmt.Sprintf("%s.%s = %s", lv, f.Name(), ex))
	}
}

// embeds: struct type a has a field (transitively) of struct type b held by value
func embeds(a, b types.Type) bool {
	if a == nil || b == nil {
		return false
	}
	st, ok := types.Unalias(a).Underlying().(*types.Struct)
	if !ok {
		return false
	}
	for i := 0; i < st.NumFields(); i++ {
		ft := st.Field(i).Type()
		if _, isStruct := types.Unalias(ft).Underlying().(*types.Struct); isStruct {
			if types.Identical(ft, b) || embeds(ft, b) {
				return true
			}
		}
	}
	return false
}

func smtInt(v int64) string {
	if v < 0 {
		return fmt.Sprintf("(- %d)", -v)
	}
	return strconv.FormatInt(v, 10)
}

func (g *cexGen) slice(term string, elemT types.Type, heap map[string]Term) string {
	vals, err := g.m.values([]string{"(s_ref " + term + ")", "(s_off " + term + ")", "(s_len " + term + ")", "(s_cap " + term + ")"})
	if err != nil {
		g.fail("%v", err)
		return "nil"
	}
	ref, _ := parseIntVal(vals[0])
	off, _ := parseIntVal(vals[1])
	ln, _ := parseIntVal(vals[2])
	cp, _ := parseIntVal(vals[3])
	if ref == 0 {
		return "nil"
	}
	if ref < 0 || off < 0 || ln < 0 || cp < ln || off > 1024 || cp > ln+5000 || ln > 70000 {
		// ask the solver for a model with a modest header for this slice (capacity and offset are rarely constrained,
		// and solvers like astronomically large values for them)
		g.want = append(g.want, fmt.Sprintf("(and (<= 0 (s_off %s)) (<= (s_off %s) 1024) (<= (s_cap %s) (+ (s_len %s) 5000)) (<= (s_len %s) 70000))", term, term, term, term, term))
		g.fail("slice header outside the replayable range: ref=%d off=%d len=%d cap=%d", ref, off, ln, cp)
		return "nil"
	}
	if isObjElem(elemT) {
		g.fail("slice of element objects (%s)", elemT)
		return "nil"
	}
	key := fmt.Sprintf("%s@%d", elemKey(elemT), ref)
	a := g.arrs[key]
	if a == nil {
		g.nvar++
		a = &cexArr{name: fmt.Sprintf("a%d", g.nvar), elemT: elemT, ref: ref, walked: map[int]bool{}, key: elemKey(elemT)}
		g.arrs[key] = a
		g.arrList = append(g.arrList, a)
		g.refVars[key] = a.name
	}
	if int(off+cp) > a.size {
		a.size = int(off + cp)
	}
	h, ok := g.heapTerm(heap, a.key)
	if ok {
		var idx []int
		for i := int(off); i < int(off+ln); i++ {
			if !a.walked[i] {
				a.walked[i] = true
				idx = append(idx, i)
			}
		}
		g.elems(a, h, idx, heap, term, off)
	}
	return fmt.Sprintf("%s[%d:%d:%d]", a.name, off, off+ln, off+cp)
}

func (g *cexGen) elems(a *cexArr, h string, idx []int, heap map[string]Term, sliceTerm string, off int64) {
	if len(idx) == 0 || g.err != nil {
		return
	}
	cell := func(i int) string { return fmt.Sprintf("(select (select %s %d) %d)", h, a.ref, i) }
	if isScalar(a.elemT) {
		terms := make([]string, len(idx))
		for k, i := range idx {
			terms[k] = cell(i)
		}
		vals, err := g.m.values(terms)
		if err != nil {
			g.fail("%v", err)
			return
		}
		for k, i := range idx {
			lit, ok := g.scalarLit(vals[k], a.elemT)
			if !ok {
				g.fail("no literal for element %d of %s", i, a.name)
				return
			}
			if z, _ := parseIntVal(vals[k]); z == 0 && vals[k] != "true" {
				continue
			}
			g.inits = append(g.inits, fmt.Sprintf("%s[%d] = %s", a.name, i, lit))
		}
		return
	}
	for _, i := range idx {
		// symbolic address (constraints added for nested slices must follow the model when it changes)
		symCell := fmt.Sprintf("(select (select %s (s_ref %s)) (+ (s_off %s) %d))", h, sliceTerm, sliceTerm, int64(i)-off)
		ex := g.build(symCell, a.elemT, heap)
		if g.err != nil {
			return
		}
		g.inits = append(g.inits, fmt.Sprintf("%s[%d] = %s", a.name, i, ex))
	}
}

// ---------------------------------------------------------------------------
// expectation side: a description of the model's results / post-state, compared with the real values by reflection

func (g *cexGen) expect(term string, t types.Type, heap map[string]Term, depth int) string {
	if g.err != nil {
		return "nil"
	}
	if depth > 12 {
		return `&xn{K: "skip"}`
	}
	t = types.Unalias(t)
	switch x := t.Underlying().(type) {
	case *types.Basic:
		if !isScalar(t) {
			return `&xn{K: "skip"}`
		}
		vs := g.val(term)
		if x.Info()&types.IsBoolean != 0 {
			return fmt.Sprintf(`&xn{K: "bool", B: %s}`, vs)
		}
		v, ok := parseIntVal(vs)
		if !ok {
			g.fail("unparsable %q", vs)
		}
		if x.Info()&types.IsUnsigned != 0 {
			return fmt.Sprintf(`&xn{K: "uint", U: %d}`, uint64(v))
		}
		return fmt.Sprintf(`&xn{K: "int", I: %d}`, v)
	case *types.Pointer:
		r := g.intVal(term)
		if r == 0 {
			return `&xn{K: "nil"}`
		}
		st, ok := types.Unalias(x.Elem()).Underlying().(*types.Struct)
		if !ok || r < 0 {
			return `&xn{K: "skip"}`
		}
		return g.expectObj(r, x.Elem(), st, heap, depth)
	case *types.Interface:
		k := g.intVal("(c_kind " + term + ")")
		r := g.intVal("(c_ref " + term + ")")
		if k == 0 && r == 0 {
			return `&xn{K: "nil"}`
		}
		dt := g.kindType(k)
		pt, ok := dt.(*types.Pointer)
		if dt == nil || !ok {
			// e.g. error values: the model only knows that they are not nil
			return `&xn{K: "nonnil"}`
		}
		st, ok := types.Unalias(pt.Elem()).Underlying().(*types.Struct)
		if !ok || r <= 0 {
			g.fail("dynamic value is not an allocated struct")
			return "nil"
		}
		return fmt.Sprintf(`&xn{K: "iface", T: %q, P: %s}`, namedName(pt.Elem()), g.expectObj(r, pt.Elem(), st, heap, depth))
	case *types.Slice:
		vals, err := g.m.values([]string{"(s_ref " + term + ")", "(s_off " + term + ")", "(s_len " + term + ")"})
		if err != nil {
			g.fail("%v", err)
			return "nil"
		}
		ref, _ := parseIntVal(vals[0])
		off, _ := parseIntVal(vals[1])
		ln, _ := parseIntVal(vals[2])
		if ref == 0 {
			return `&xn{K: "nil"}`
		}
		if ln < 0 || ln > 1<<21 || isObjElem(x.Elem()) {
			g.fail("result slice outside the replayable range")
			return "nil"
		}
		g.nvar++
		v := fmt.Sprintf("x%d", g.nvar)
		g.xdecl = append(g.xdecl, fmt.Sprintf(`%s := &xn{K: "slice", Ref: %q, Off: %d, Len: %d}`, v, fmt.Sprintf("%s@%d", elemKey(x.Elem()), ref), off, ln))
		h, ok := g.heapTerm(heap, elemKey(x.Elem()))
		if !ok {
			return v
		}
		if isScalar(x.Elem()) {
			terms := make([]string, ln)
			for i := range terms {
				terms[i] = fmt.Sprintf("(select (select %s %d) %d)", h, ref, off+int64(i))
			}
			vs, err := g.m.values(terms)
			if err != nil {
				g.fail("%v", err)
				return "nil"
			}
			var sb strings.Builder
			b := types.Unalias(x.Elem()).Underlying().(*types.Basic)
			switch {
			case b.Info()&types.IsBoolean != 0:
				sb.WriteString(v + ".SB = []bool{")
				for _, s := range vs {
					sb.WriteString(s + ",")
				}
			case b.Info()&types.IsUnsigned != 0:
				sb.WriteString(v + ".SU = []uint64{")
				for _, s := range vs {
					u, _ := parseIntVal(s)
					fmt.Fprintf(&sb, "%d,", uint64(u))
				}
			default:
				sb.WriteString(v + ".SI = []int64{")
				for _, s := range vs {
					u, _ := parseIntVal(s)
					fmt.Fprintf(&sb, "%d,", u)
				}
			}
			sb.WriteString("}")
			g.xinit = append(g.xinit, sb.String())
			return v
		}
		for i := int64(0); i < ln; i++ {
			ex := g.expect(fmt.Sprintf("(select (select %s %d) %d)", h, ref, off+i), x.Elem(), heap, depth+1)
			if g.err != nil {
				return "nil"
			}
			g.xinit = append(g.xinit, fmt.Sprintf("%s.E = append(%s.E, %s)", v, v, ex))
		}
		return v
	case *types.Struct:
		if isValueStruct(t) {
			name := structName(t)
			var fs []string
			for i := 0; i < x.NumFields(); i++ {
				f := x.Field(i)
				fs = append(fs, fmt.Sprintf(`{%q, %s}`, f.Name(), g.expect(fmt.Sprintf("(%s_%s %s)", name, f.Name(), term), f.Type(), heap, depth+1)))
			}
			return `&xn{K: "struct", F: []xf{` + strings.Join(fs, ", ") + `}}`
		}
	}
	return `&xn{K: "skip"}`
}

func (g *cexGen) expectObj(r int64, elemT types.Type, st *types.Struct, heap map[string]Term, depth int) string {
	key := fmt.Sprintf("%s@%d", typeKey(elemT), r)
	if v, ok := g.xobjs[key]; ok {
		return v
	}
	g.nvar++
	v := fmt.Sprintf("x%d", g.nvar)
	g.xobjs[key] = v
	g.xdecl = append(g.xdecl, fmt.Sprintf(`%s := &xn{K: "ptr", Ref: %q}`, v, key))
	g.expectFields(v, "", elemT, st, r, heap, depth)
	return v
}

func (g *cexGen) expectFields(v, path string, structT types.Type, st *types.Struct, r int64, heap map[string]Term, depth int) {
	for i := 0; i < st.NumFields(); i++ {
		f := st.Field(i)
		if f.Name() == "_" {
			continue
		}
		p := f.Name()
		if path != "" {
			p = path + "." + f.Name()
		}
		if fs, ok := types.Unalias(f.Type()).Underlying().(*types.Struct); ok && !isValueStruct(f.Type()) {
			g.expectFields(v, p, f.Type(), fs, r, heap, depth)
			continue
		}
		h, ok := g.heapTerm(heap, fieldKey(structT, f.Name()))
		if !ok {
			continue
		}
		ex := g.expect(fmt.Sprintf("(select %s %d)", h, r), f.Type(), heap, depth+1)
		if g.err != nil {
			return
		}
		g.xinit = append(g.xinit, fmt.Sprintf("%s.F = append(%s.F, xf{%q, %s})", v, v, p, ex))
	}
}

// ---------------------------------------------------------------------------

var declFunRe = regexp.MustCompile(`(?m)^\(declare-fun ([^ ]+) \(([^)]*)\)`)

// opaqueSymbols lists uninterpreted functions with arguments in the query whose model interpretation need not be the
// intended one (opaque spec functions, callee result functions): with any of them a model is not replayed.
func opaqueSymbols(query string) []string {
	var out []string
	for _, m := range declFunRe.FindAllStringSubmatch(query, -1) {
		if strings.TrimSpace(m[2]) == "" {
			continue
		}
		switch m[1] {
		case "eref", "einv1", "einv2":
			continue
		}
		// declared by the prelude but not used by any premise or by the goal: irrelevant
		if strings.Count(query, "("+m[1]+" ") == 0 {
			continue
		}
		out = append(out, m[1])
	}
	return out
}

func replayCounterexample(o *Obligation, repo string) (res cexResult) {
	e := o.exec
	if e == nil || e.fn == nil || e.fn.Decl == nil {
		res.Why = "no function body"
		return
	}
	switch o.Kind {
	case "post", "idx", "slice", "nil", "div", "make", "panic":
	default:
		res.Why = "obligation kind " + o.Kind + " is a statement about an intermediate state (loop head, call site, frame): the model is not a function input"
		return
	}
	if o.Kind == "post" && o.Replay == nil {
		res.Why = "no result terms recorded"
		return
	}
	fd := e.fn.Decl
	if fd.Type.TypeParams != nil {
		res.Why = "generic function"
		return
	}
	q := o.query()
	if ops := opaqueSymbols(q); len(ops) > 0 {
		if len(ops) > 6 {
			ops = append(ops[:6], "...")
		}
		res.Why = "the query contains uninterpreted functions (" + strings.Join(ops, ", ") + "): the model's interpretation of them need not be the intended one"
		return
	}
	m, err := startModel(q, 30)
	if err != nil {
		res.Why = err.Error()
		return
	}
	defer m.close()
	// Models are only useful when they are small. First ask for an entry heap whose slices are short and tight and
	// whose interface values have real dynamic types (universally, for the entry versions of the heap maps); weaker
	// bounds when that is not satisfiable, per-term repairs (below) in any case.
	for _, lim := range []int{8, 1100, 70000} {
		cs := niceHeap(e, lim)
		if len(cs) == 0 {
			break
		}
		io.WriteString(m.in, "(push)\n")
		if err := m.constrain(cs); err == nil {
			break
		}
		io.WriteString(m.in, "(pop)\n")
		if err := m.constrain(nil); err != nil {
			res.Why = "model session lost: " + err.Error()
			return
		}
	}
	for round := 0; ; round++ {
		var want []string
		res, want = replayAttempt(o, repo, m)
		if os.Getenv("RVC_DEBUG") != "" {
			fmt.Fprintf(os.Stderr, "  cex round %d: confirmed=%v why=%s want=%v\n", round, res.Confirmed, res.Why, want)
		}
		if len(want) == 0 || round >= 24 {
			return
		}
		if err := m.constrain(want); err != nil {
			res.Why += " (and no model with modest slice headers: " + err.Error() + ")"
			return
		}
	}
}

// niceHeap: universally quantified "small model" preferences for the entry versions of the heap maps.
func niceHeap(e *Exec, lim int) []string {
	var keys []string
	for k := range e.heapMetas {
		keys = append(keys, k)
	}
	sort.Strings(keys)
	g := &cexGen{e: e}
	var out []string
	for _, k := range keys {
		hm := e.heapMetas[k]
		var v, binder string
		if strings.HasPrefix(k, "M_") {
			v = fmt.Sprintf("(select (select %s!0 r!n) i!n)", k)
			binder = "((r!n Int) (i!n Int))"
		} else {
			v = fmt.Sprintf("(select %s!0 r!n)", k)
			binder = "((r!n Int))"
		}
		var body string
		switch hm.vsort {
		case SSlice:
			body = fmt.Sprintf("(and (<= 0 (s_off %s)) (<= (s_off %s) 4) (<= 0 (s_len %s)) (<= (s_len %s) %d) (<= (s_cap %s) (+ (s_len %s) 8)) (>= (s_ref %s) 0))", v, v, v, v, lim, v, v, v)
		case SCont:
			var alts []string
			codes := map[string]int{}
			for kk, c := range fixedKinds {
				codes[kk] = c
			}
			for kk, c := range e.kindCodes {
				codes[kk] = c
			}
			for _, c := range codes {
				if it := g.kindType(int64(c)); it != nil && hm.vtype != nil && types.AssignableTo(it, hm.vtype) {
					alts = append(alts, fmt.Sprintf("(= (c_kind %s) %d)", v, c))
				}
			}
			sort.Strings(alts)
			if len(alts) == 0 {
				continue
			}
			body = fmt.Sprintf("(or (= %s (mkC 0 0)) (and (> (c_ref %s) 0) (or %s false)))", v, v, strings.Join(alts, " "))
		case SInt:
			if hm.vtype == nil {
				continue
			}
			if _, isPtr := types.Unalias(hm.vtype).Underlying().(*types.Pointer); !isPtr || e.declared["eref"] {
				continue
			}
			body = fmt.Sprintf("(>= %s 0)", v)
		default:
			continue
		}
		out = append(out, fmt.Sprintf("(forall %s %s)", binder, body))
	}
	return out
}

func (m *mdlSession) constrain(cs []string) error {
	var b strings.Builder
	for _, c := range cs {
		b.WriteString("(assert " + c + ")\n")
	}
	b.WriteString("(check-sat)\n")
	io.WriteString(m.in, b.String())
	line, err := m.out.ReadString('\n')
	if err != nil {
		return err
	}
	if strings.TrimSpace(line) != "sat" {
		return fmt.Errorf("solver answered %s", strings.TrimSpace(line))
	}
	return nil
}

func replayAttempt(o *Obligation, repo string, m *mdlSession) (res cexResult, want []string) {
	e := o.exec
	fd := e.fn.Decl
	m.n = 0
	g := &cexGen{e: e, m: m, imports: map[string]string{}, objs: map[string]string{}, arrs: map[string]*cexArr{}, refVars: map[string]string{}, objSym: map[int64]string{}, objType: map[int64]types.Type{}, xobjs: map[string]string{}}
	g.qual = func(p *types.Package) string {
		if p == e.fn.Pkg.Types {
			return ""
		}
		g.imports[p.Path()] = p.Name()
		return p.Name()
	}
	g.alloc0 = g.intVal("alloc!0")
	sig := e.fn.Obj.Type().(*types.Signature)
	// parameters
	type par struct {
		name string
		t    types.Type
		expr string
	}
	var recv *par
	var pars []par
	mk := func(name string, t types.Type) par {
		if name == "_" || name == "" {
			return par{name, t, g.zeroExpr(t)}
		}
		tv, ok := e.entryVars[name]
		if !ok {
			return par{name, t, g.zeroExpr(t)}
		}
		ex := g.build(tv.T.S, t, nil)
		g.nvar++
		v := fmt.Sprintf("p%d_%s", g.nvar, name)
		g.inits = append(g.inits, fmt.Sprintf("var %s %s = %s", v, g.typeStr(t), ex))
		g.desc = append(g.desc, name+" = "+ex)
		return par{name, t, v}
	}
	if fd.Recv != nil && len(fd.Recv.List) > 0 {
		name := "_"
		if len(fd.Recv.List[0].Names) > 0 {
			name = fd.Recv.List[0].Names[0].Name
		}
		p := mk(name, sig.Recv().Type())
		recv = &p
	}
	k := 0
	for _, f := range fd.Type.Params.List {
		names := f.Names
		if len(names) == 0 {
			names = []*ast.Ident{{Name: "_"}}
		}
		for _, n := range names {
			pars = append(pars, mk(n.Name, sig.Params().At(k).Type()))
			k++
		}
	}
	if g.err != nil {
		res.Why = g.err.Error()
		want = g.want
		return
	}
	// the call
	var args []string
	for i, p := range pars {
		a := p.expr
		if sig.Variadic() && i == len(pars)-1 {
			a += "..."
		}
		args = append(args, a)
	}
	callee := fd.Name.Name
	if recv != nil {
		if _, isPtr := types.Unalias(recv.t).Underlying().(*types.Pointer); !isPtr {
			if _, isStruct := types.Unalias(recv.t).Underlying().(*types.Struct); isStruct && !isValueStruct(recv.t) {
				res.Why = "value receiver of struct type"
				return
			}
		}
		callee = recv.expr + "." + callee
	}
	nres := sig.Results().Len()
	var rnames []string
	for i := 0; i < nres; i++ {
		rnames = append(rnames, fmt.Sprintf("r%d", i))
	}
	call := callee + "(" + strings.Join(args, ", ") + ")"
	if nres > 0 {
		call = strings.Join(rnames, ", ") + " = " + call
	}
	// expectations
	var checks []string
	if o.Kind == "post" {
		for i, r := range o.Replay.Results {
			if i >= nres {
				break
			}
			ex := g.expect(r.T.S, r.Ty, o.Replay.Heap, 0)
			checks = append(checks, fmt.Sprintf("c.eq(%q, reflect.ValueOf(&r%d).Elem(), %s)", fmt.Sprintf("result %d", i), i, ex))
		}
		all := pars
		if recv != nil {
			all = append([]par{*recv}, pars...)
		}
		for _, p := range all {
			tv, ok := e.entryVars[p.name]
			if !ok {
				continue
			}
			switch types.Unalias(p.t).Underlying().(type) {
			case *types.Pointer, *types.Slice, *types.Interface:
				ex := g.expect(tv.T.S, p.t, o.Replay.Heap, 0)
				checks = append(checks, fmt.Sprintf("c.eq(%q, reflect.ValueOf(&%s).Elem(), %s)", "post-state of "+p.name, p.expr, ex))
			}
		}
	}
	if g.err != nil {
		res.Why = g.err.Error()
		want = g.want
		return
	}
	// emit
	var b strings.Builder
	fmt.Fprintf(&b, "package %s\n\n// generated by rvc from the solver's counterexample for %s\n\nimport (\n\t\"fmt\"\n\t\"reflect\"\n\t\"testing\"\n", e.fn.Pkg.Types.Name(), o.Name)
	var ips []string
	for p := range g.imports {
		ips = append(ips, p)
	}
	sort.Strings(ips)
	for _, p := range ips {
		if p == "fmt" || p == "reflect" || p == "testing" {
			continue
		}
		fmt.Fprintf(&b, "\t%q\n", p)
	}
	b.WriteString(")\n\n")
	b.WriteString(cexHelpers)
	b.WriteString("\nfunc TestRvcReplay(t *testing.T) {\n")
	for _, a := range g.arrList {
		fmt.Fprintf(&b, "\t%s := make([]%s, %d)\n", a.name, g.typeStr(a.elemT), a.size)
	}
	for _, d := range g.decls {
		b.WriteString("\t" + d + "\n")
	}
	for _, d := range g.inits {
		b.WriteString("\t" + d + "\n")
	}
	b.WriteString("\tc := &xcmp{in: map[string]uintptr{}, fresh: map[string]uintptr{}, seen: map[*xn]bool{}}\n")
	var refs []string
	for r := range g.refVars {
		refs = append(refs, r)
	}
	sort.Strings(refs)
	for _, r := range refs {
		v := g.refVars[r]
		if strings.HasPrefix(v, "a") {
			fmt.Fprintf(&b, "\tc.addArr(%q, reflect.ValueOf(%s))\n", r, v)
		} else {
			fmt.Fprintf(&b, "\tc.in[%q] = reflect.ValueOf(%s).Pointer()\n", r, v)
		}
	}
	for i := 0; i < nres; i++ {
		fmt.Fprintf(&b, "\tvar r%d %s\n", i, g.typeStr(sig.Results().At(i).Type()))
	}
	b.WriteString("\tfunc() {\n\t\tdefer func() {\n\t\t\tif p := recover(); p != nil {\n\t\t\t\tc.panicked = true\n\t\t\t\tfmt.Printf(\"RVC-REPLAY panic: %v\\n\", p)\n\t\t\t}\n\t\t}()\n")
	b.WriteString("\t\t" + call + "\n\t}()\n")
	for i := 0; i < nres; i++ {
		fmt.Fprintf(&b, "\t_ = r%d\n", i)
	}
	b.WriteString("\tif !c.panicked {\n\t\tfmt.Println(\"RVC-REPLAY returned\")\n")
	if o.Kind == "post" {
		for _, d := range g.xdecl {
			b.WriteString("\t\t" + d + "\n")
		}
		for _, d := range g.xinit {
			b.WriteString("\t\t" + d + "\n")
		}
		for _, ck := range checks {
			b.WriteString("\t\t" + ck + "\n")
		}
		b.WriteString("\t\tif len(c.diffs) == 0 {\n\t\t\tfmt.Println(\"RVC-REPLAY outputs-match-model\")\n\t\t} else {\n\t\t\tfor _, d := range c.diffs {\n\t\t\t\tfmt.Println(\"RVC-REPLAY differs:\", d)\n\t\t\t}\n\t\t}\n")
	}
	b.WriteString("\t}\n}\n")
	res.TestSrc = b.String()
	var in []string
	for _, a := range g.arrList {
		in = append(in, fmt.Sprintf("%s := make([]%s, %d)", a.name, g.typeStr(a.elemT), a.size))
	}
	in = append(in, g.decls...)
	in = append(in, g.inits...)
	in = append(in, "call: "+call)
	res.Input = strings.Join(in, "; ")
	if len(res.Input) > 1500 {
		res.Input = res.Input[:1500] + " ... (complete input: the generated test next to this record)"
	}
	// run
	file := e.prog.Fset.Position(e.fn.Decl.Pos()).Filename
	if rel, err := filepath.Rel(repo, filepath.Dir(file)); err == nil {
		res.PkgRel = rel
	}
	out, err := runReplaySrc(filepath.Dir(file), res.TestSrc)
	res.Log = out
	if err != nil {
		res.Why = "replay test did not run: " + err.Error()
		return
	}
	panicked := strings.Contains(out, "RVC-REPLAY panic:")
	switch {
	case o.Kind != "post" && panicked:
		res.Confirmed = true
		res.Verdict = "the real function panics on this input: " + lineWith(out, "RVC-REPLAY panic:")
	case o.Kind != "post":
		res.Verdict = "the real function returns normally on the model's input"
	case panicked:
		res.Verdict = "the real function panics on the model's input (" + lineWith(out, "RVC-REPLAY panic:") + "); the failed obligation is a postcondition"
	case strings.Contains(out, "RVC-REPLAY outputs-match-model"):
		res.Confirmed = true
		res.Verdict = "the real results and post-state equal the model's, on which the clause is false"
	default:
		res.Verdict = "the real outputs differ from the model's (the model used a behaviour that a callee's or loop's contract allows): " + lineWith(out, "RVC-REPLAY differs:")
	}
	return
}

func lineWith(out, marker string) string {
	for _, l := range strings.Split(out, "\n") {
		if i := strings.Index(l, marker); i >= 0 {
			return strings.TrimSpace(l[i+len(marker):])
		}
	}
	return ""
}

func runReplaySrc(pkgDir string, src string) (string, error) {
	scratchBase := os.Getenv("VERIF_SCRATCH")
	if scratchBase == "" {
		scratchBase = "/var/tmp"
	}
	d, err := os.MkdirTemp(scratchBase, "rvc-cex-")
	if err != nil {
		return "", err
	}
	defer os.RemoveAll(d)
	srcFile := filepath.Join(d, "zz_rvc_replay_test.go")
	os.WriteFile(srcFile, []byte(src), 0o644)
	dst := filepath.Join(pkgDir, "zz_rvc_replay_test.go")
	ovf := filepath.Join(d, "ov.json")
	os.WriteFile(ovf, []byte(fmt.Sprintf("{\"Replace\": {%q: %q}}\n", dst, srcFile)), 0o644)
	cmd := exec.Command("go", "test", "-overlay", ovf, "-vet=off", "-count=1", "-timeout", "60s", "-v", "-run", "^TestRvcReplay$", ".")
	cmd.Dir = pkgDir
	cmd.Env = append(os.Environ(), "GOFLAGS=-mod=mod", "GOPROXY=off", "GOSUMDB=off", "GOTOOLCHAIN=local")
	var buf bytes.Buffer
	cmd.Stdout = &buf
	cmd.Stderr = &buf
	err = cmd.Run()
	out := buf.String()
	if len(out) > 6000 {
		out = out[:6000]
	}
	if !strings.Contains(out, "RVC-REPLAY") {
		if err == nil {
			err = fmt.Errorf("no verdict line")
		}
		return out, err
	}
	return out, nil
}

const cexHelpers = `type xf struct {
	Name string
	N    *xn
}

// xn describes a value of the solver's model (results / post-state) for comparison with the real value.
type xn struct {
	K             string
	I             int64
	U             uint64
	B             bool
	Ref           string
	Off, Len      int64
	T             string
	P             *xn
	E             []*xn
	SI            []int64
	SU            []uint64
	SB            []bool
	F             []xf
}

type xrange struct{ lo, hi uintptr }

type xcmp struct {
	in       map[string]uintptr // memory@reference of an input object / array -> its address
	ranges   []xrange
	fresh    map[string]uintptr
	seen     map[*xn]bool
	diffs    []string
	panicked bool
}

func (c *xcmp) addArr(ref string, v reflect.Value) {
	if v.Len() == 0 {
		return
	}
	p := v.Pointer()
	c.in[ref] = p
	c.ranges = append(c.ranges, xrange{p, p + uintptr(v.Len())*v.Type().Elem().Size()})
}

func (c *xcmp) diff(path string, format string, a ...interface{}) bool {
	if len(c.diffs) < 8 {
		c.diffs = append(c.diffs, path+": "+fmt.Sprintf(format, a...))
	}
	return false
}

func (c *xcmp) inInput(p uintptr) bool {
	for _, q := range c.in {
		if q == p {
			return true
		}
	}
	for _, r := range c.ranges {
		if p >= r.lo && p < r.hi {
			return true
		}
	}
	return false
}

// ident checks object identity: a model reference of an input object must be that object, any other reference
// must be an object that did not exist before the call, the same one each time the reference occurs.
func (c *xcmp) ident(path string, ref string, p uintptr, off int64, esz uintptr) bool {
	if q, ok := c.in[ref]; ok {
		if p != q+uintptr(off)*esz {
			return c.diff(path, "the model says this is the input object/array %s, the real value is a different one", ref)
		}
		return true
	}
	if q, ok := c.fresh[ref]; ok {
		if p != q+uintptr(off)*esz {
			return c.diff(path, "aliasing among new objects differs from the model")
		}
		return true
	}
	if c.inInput(p) {
		return c.diff(path, "the model says this is a new object, the real value is (part of) an input object")
	}
	c.fresh[ref] = p - uintptr(off)*esz
	return true
}

func (c *xcmp) eq(path string, v reflect.Value, n *xn) bool {
	if n == nil || n.K == "skip" {
		return true
	}
	switch n.K {
	case "int":
		if v.Int() != n.I {
			return c.diff(path, "real %d, model %d", v.Int(), n.I)
		}
	case "uint":
		if v.Uint() != n.U {
			return c.diff(path, "real %d, model %d", v.Uint(), n.U)
		}
	case "bool":
		if v.Bool() != n.B {
			return c.diff(path, "real %v, model %v", v.Bool(), n.B)
		}
	case "nonnil":
		if v.IsNil() {
			return c.diff(path, "real nil, model not nil")
		}
	case "nil":
		if !v.IsNil() {
			return c.diff(path, "real value is not nil, model nil")
		}
	case "iface":
		if v.IsNil() {
			return c.diff(path, "real nil, model a %s", n.T)
		}
		d := v.Elem()
		if d.Kind() != reflect.Ptr || d.Type().Elem().Name() != n.T {
			return c.diff(path, "real dynamic type %s, model *%s", d.Type(), n.T)
		}
		return c.eq(path, d, n.P)
	case "ptr":
		if v.IsNil() {
			return c.diff(path, "real nil, model an object")
		}
		if !c.ident(path, n.Ref, v.Pointer(), 0, 0) {
			return false
		}
		if c.seen[n] {
			return true
		}
		c.seen[n] = true
		ok := true
		for _, f := range n.F {
			fv := v.Elem()
			for _, part := range splitDots(f.Name) {
				fv = fv.FieldByName(part)
			}
			if !c.eq(path+"."+f.Name, fv, f.N) {
				ok = false
			}
		}
		return ok
	case "struct":
		ok := true
		for _, f := range n.F {
			if !c.eq(path+"."+f.Name, v.FieldByName(f.Name), f.N) {
				ok = false
			}
		}
		return ok
	case "slice":
		if v.IsNil() {
			return c.diff(path, "real nil slice, model a slice of length %d", n.Len)
		}
		if int64(v.Len()) != n.Len {
			return c.diff(path, "real length %d, model %d", v.Len(), n.Len)
		}
		if v.Cap() > 0 {
			if !c.ident(path, n.Ref, v.Pointer(), n.Off, v.Type().Elem().Size()) {
				return false
			}
		}
		if c.seen[n] {
			return true
		}
		c.seen[n] = true
		for i := 0; i < v.Len(); i++ {
			e := v.Index(i)
			switch {
			case n.SI != nil:
				if e.Int() != n.SI[i] {
					return c.diff(fmt.Sprintf("%s[%d]", path, i), "real %d, model %d", e.Int(), n.SI[i])
				}
			case n.SU != nil:
				if e.Uint() != n.SU[i] {
					return c.diff(fmt.Sprintf("%s[%d]", path, i), "real %d, model %d", e.Uint(), n.SU[i])
				}
			case n.SB != nil:
				if e.Bool() != n.SB[i] {
					return c.diff(fmt.Sprintf("%s[%d]", path, i), "real %v, model %v", e.Bool(), n.SB[i])
				}
			case i < len(n.E):
				if !c.eq(fmt.Sprintf("%s[%d]", path, i), e, n.E[i]) {
					return false
				}
			}
		}
	}
	return true
}

func splitDots(s string) []string {
	var out []string
	cur := ""
	for _, ch := range s {
		if ch == '.' {
			out = append(out, cur)
			cur = ""
		} else {
			cur += string(ch)
		}
	}
	return append(out, cur)
}
`
