#!/bin/sh
# usage: tools_replay.sh <package dir relative to /repo ('.' for root)> <go test file> [-run regex] [repo]
# runs an in-package test against the real code through `go test -overlay` (nothing is written into the repository)
set -e
. /verif/env.sh
PKG=$1; FILE=$(readlink -f $2); RUN=${3:-.}; REPO=${4:-/repo}
D=$(mktemp -d ${VERIF_SCRATCH:-/var/tmp}/replay.XXXXXX)
trap 'rm -rf $D' EXIT
printf '{"Replace": {"%s/%s/zz_replay_verif_test.go": "%s"}}\n' "$REPO" "$PKG" "$FILE" > $D/ov.json
cd $REPO/$PKG && go test -overlay $D/ov.json -vet=off -count=1 -timeout 120s -v -run "$RUN" . 2>&1 | tail -30
