#!/usr/bin/env python3
"""Must-fail self-test of the verifier: each entry is a deliberate, compiling change of /repo (on a scratch copy)
that breaks a contract; `rvc verify` of the named keys must report at least one failed obligation whose name
contains `expect`. Also: engine reproducers (contracts that are false of their code and must NOT verify) and the
reverse patches of the committed fixes. Exit 0 iff every mutant is caught.

usage: tools_selftest.py [name-filter]
"""
import os, subprocess, sys, shutil, tempfile, re

REPO = '/repo'
RVC = '/verif/bin/rvc'
SCRATCH = os.environ.get('VERIF_SCRATCH', '/var/tmp')

MUTANTS = [
 dict(name='bsearch-off-by-one', file='setutil.go', old='\t\telse if middleValue > ikey {\n\t\t\thigh = middleIndex - 1'.replace('\t\telse','\t\t} else',1), new='\t\t} else if middleValue > ikey {\n\t\t\thigh = middleIndex - 2', keys='roaring.binarySearch', expect='binarySearch/'),
 dict(name='union-drops-tail', file='setutil_generic.go', old='\t\t\t\tcopy(buffer[pos:], set2[k2:])\n\t\t\t\tpos += len(set2) - k2\n\t\t\t\tbreak', new='\t\t\t\tbreak', keys='roaring.union2by2', expect='union2by2/'),
 dict(name='gallop-bound', file='setutil.go', old='lower += (spansize >> 1)', new='lower += spansize', keys='roaring.advanceUntil', expect='advanceUntil/'),
 dict(name='array-iadd-threshold', file='arraycontainer.go', old='\t\tif len(ac.content) >= arrayDefaultMaxSize {\n\t\t\ta := ac.toBitmapContainer()', new='\t\tif len(ac.content) > arrayDefaultMaxSize {\n\t\t\ta := ac.toBitmapContainer()', keys='roaring.arrayContainer.iaddReturnMinimized', expect='iaddReturnMinimized/'),
 dict(name='bitmap-iadd-card', file='bitmapcontainer.go', old='bc.cardinality += int((previous ^ newb) >> (uint(x) % 64))\n\treturn newb != previous', new='bc.cardinality += 1\n\treturn newb != previous', keys='roaring.bitmapContainer.iadd', expect='iadd/'),
 dict(name='array-validate-conjunct', file='arraycontainer.go', old='if previous >= next {', new='if previous > next {', keys='roaring.arrayContainer.validate', expect='validate/'),
 dict(name='readfrom-size-check', file='roaringarray.go', old='if size > (1 << 16) {', new='if size > (1 << 17) {', keys='roaring.roaringArray.readFrom', expect='readFrom/'),
 dict(name='getCardinalityInRange-end', file='arraycontainer.go', old=None, patch='seeded/C03a/patch.diff', keys='roaring.arrayContainer.getCardinalityInRange,roaring.bitmapContainer.getCardinalityInRange,roaring.runContainer16.getCardinalityInRange', expect='getCardinalityInRange/'),
 dict(name='iaddRange-threshold(C01a)', patch='seeded/C01a/patch.diff', keys='roaring.arrayContainer.iaddRange', expect='iaddRange'),
]

# contracts that are false of their code: the engine must not prove them
ENGINE = r'''//go:build verif

package roaring

import "encoding/binary"

func zzSelfFrame(bc *bitmapContainer, rc *runContainer16) container { return bc.ixor(rc) }

//@ contract zzSelfFrame
//@   requires bwf(bc) && rwf(rc)
//@   ensures cwf(res)
//@   modifies nothing

func zzSelfFresh(ac *arrayContainer) int {
	n := len(ac.content)
	ac.iadd(7)
	return n
}

//@ contract zzSelfFresh
//@   requires awf(ac) && len(ac.content) < 100
//@   ensures len(ac.content) == res            -- false: iadd may grow the array
//@   modifies allof(ac), elems(ac.content)

func zzSelfByte(buf []byte) byte {
	buf[0] = 1
	return buf[0] + 1
}

//@ contract zzSelfByte
//@   requires len(buf) > 0
//@   ensures res == 3                          -- false: 2
//@   modifies elems(buf)

func zzCexCallee(x int) int { return x + 1 }

//@ contract zzCexCallee
//@   ensures res > x
//@   modifies nothing

func zzCexCaller(x int) int { return zzCexCallee(x) }

//@ contract zzCexCaller
//@   requires x < 1000 && x > -1000
//@   ensures res == x + 1                      -- true of the code but not derivable from the callee's contract: the solver's model must NOT replay
//@   modifies nothing

func zzBE(b []byte) uint32 { return binary.BigEndian.Uint32(b) }

//@ contract zzBE
//@   requires len(b) >= 4
//@   ensures res == 16777216*b[0] + 65536*b[1] + 256*b[2] + b[3]
//@   modifies nothing

func zzBEPut(b []byte, v uint16) { binary.BigEndian.PutUint16(b, v) }

//@ contract zzBEPut
//@   requires len(b) >= 2
//@   ensures 256*b[0] + b[1] == v
//@   modifies elems(b)

func zzBEwrong(b []byte) uint32 { return binary.BigEndian.Uint32(b) }

//@ contract zzBEwrong
//@   requires len(b) >= 4
//@   ensures res == 16777216*b[3] + 65536*b[2] + 256*b[1] + b[0]      -- false: that is the little-endian value
//@   modifies nothing

type zzP struct {
	n  int
	xs []uint16
}

type zzB struct {
	ps []zzP
}

func (p *zzP) bump() { p.n++ }

//@ contract zzP.bump
//@   requires p != nil
//@   ensures p.n == old(p.n) + 1 && p.xs == old(p.xs)
//@   modifies p.n

func (b *zzB) bumpAll() {
	for i := range b.ps {
		b.ps[i].bump()
	}
}

//@ contract zzB.bumpAll
//@   requires b != nil
//@   ensures forall j in 0..len(b.ps) :: b.ps[j].n == old(b.ps[j].n) + 1
//@   ensures forall j in 0..len(b.ps) :: b.ps[j].xs == old(b.ps[j].xs)
//@   modifies elems(b.ps)
//@   loop 0 invariant forall j in 0.._i :: b.ps[j].n == old(b.ps[j].n) + 1
//@   loop 0 invariant forall j in _i..len(b.ps) :: b.ps[j].n == old(b.ps[j].n)
//@   loop 0 invariant forall j in 0..len(b.ps) :: b.ps[j].xs == old(b.ps[j].xs)

func zzMk(n int) []zzP {
	s := make([]zzP, n)
	if n > 2 {
		s[1].n = 5
		p := &s[2]
		p.n = 7
	}
	s = append(s, zzP{n: 9})
	return s
}

//@ contract zzMk
//@   requires n >= 0 && n < 1000
//@   ensures len(res) == n + 1 && res[n].n == 9
//@   ensures n > 2 ==> res[0].n == 0 && res[1].n == 5 && res[2].n == 7
//@   ensures fresh(res)
//@   modifies nothing

func zzSelfMkBad(n int) []zzP {
	s := make([]zzP, n)
	if n > 2 {
		s[1].n = 5
	}
	return s
}

//@ contract zzSelfMkBad
//@   requires n >= 0 && n < 1000
//@   ensures n > 2 ==> res[2].n == 5               -- false
//@   modifies nothing

func zzSelfElemFrame(b *zzB) {
	if len(b.ps) > 0 {
		b.ps[0].n = 1
	}
}

//@ contract zzSelfElemFrame
//@   requires b != nil
//@   modifies nothing                              -- false: writes an element of b.ps

func zzSelfIfaceEref(bs []bitmapContainer) container {
	if len(bs) == 0 {
		return nil
	}
	var c container = &bs[0]
	return c
}

//@ contract zzSelfIfaceEref
//@   ensures res == nil                            -- false when len(bs) > 0 (an interface holding an interior pointer)
//@   modifies nothing

func zzSelfLoopFrame() []uint16 {
	s := make([]uint16, 4)
	for i := 0; i < 4; i++ {
		s[i] = uint16(i)
	}
	return s
}

//@ contract zzSelfLoopFrame
//@   ensures len(res) == 4 && res[3] == 0          -- false: res[3] == 3 (the loop writes a buffer allocated before it)
//@   modifies nothing
//@   loop 0 invariant 0 <= i && i <= 4 && len(s) == 4

func zzSelfAlias(a []uint16, b []uint16) {
	a[0] = 1
}

//@ contract zzSelfAlias
//@   requires len(a) > 0 && len(b) > 0
//@   ensures b[0] == old(b[0])                     -- false when a and b share their backing array
//@   modifies elems(a)

func zzSelfAppendAlias(s []uint16) []uint16 {
	t := append(s[:1], 9)
	return t
}

//@ contract zzSelfAppendAlias
//@   requires len(s) >= 2
//@   ensures s[1] == old(s[1])                     -- false: append writes s[1] in place (capacity suffices)
//@   modifies elems(s)

func zzSelfCallee(x []uint16) {
	if len(x) > 0 {
		x[0] = 3
	}
}

//@ contract zzSelfCallee
//@   ensures len(x) > 0 ==> x[0] == 3
//@   modifies elems(x)

func zzSelfCallFrame(x []uint16, y []uint16) uint16 {
	v := y[0]
	zzSelfCallee(x)
	return y[0] - v
}

//@ contract zzSelfCallFrame
//@   requires len(x) > 0 && len(y) > 0
//@   ensures res == 0                              -- false when x and y alias
//@   modifies elems(x)

func zzSelfNested(n int) []uint16 {
	s := make([]uint16, 8)
	for i := 0; i < 2; i++ {
		for j := 0; j < 4; j++ {
			s[4*i+j] = 1
		}
	}
	return s
}

//@ contract zzSelfNested
//@   ensures len(res) == 8 && res[7] == 0          -- false: res[7] == 1
//@   modifies nothing
//@   loop 0 invariant 0 <= i && i <= 2 && len(s) == 8
//@   loop 1 invariant 0 <= j && j <= 4 && len(s) == 8 && 0 <= i && i < 2

type zzQ struct{ f int }

func zzCopyStruct(a *zzQ) int {
	b := *a
	b.f = 1
	return a.f
}

//@ contract zzCopyStruct
//@   requires a != nil
//@   ensures res == old(a.f) && a.f == old(a.f)
//@   modifies nothing

func zzSelfSub(a uint16, b uint16) int { return int(a - b) }

//@ contract zzSelfSub
//@   ensures res == a - b                          -- false: uint16 subtraction wraps
//@   modifies nothing

func zzSelfBreak(a []uint16) int {
	n := 0
	for i := 0; i < len(a); i++ {
		if a[i] == 5 {
			break
		}
		n++
	}
	return n
}

//@ contract zzSelfBreak
//@   ensures res == len(a)                         -- false when a contains 5
//@   modifies nothing
//@   loop 0 invariant 0 <= i && i <= len(a) && n == i

func zzHelperNoContract(a []uint16) {
	if len(a) > 0 {
		a[0] = 1
	}
}

func zzSelfInline(a []uint16) { zzHelperNoContract(a) }

//@ contract zzSelfInline
//@   modifies nothing                              -- false: the inlined helper writes a[0]

func zzSelfShadow(x int) int {
	y := x
	if x > 0 {
		y := 5
		_ = y
	}
	return y
}

//@ contract zzSelfShadow
//@   requires x > 0
//@   ensures res == 5                              -- false: the inner y shadows
//@   modifies nothing

func zzSelfTypeSwitch(c container) int {
	switch c.(type) {
	case *arrayContainer:
		return 1
	case *bitmapContainer:
		return 2
	}
	return 3
}

//@ contract zzSelfTypeSwitch
//@   ensures res != 3                              -- false: run container or nil
//@   modifies nothing

func zzSelfDiv(a, b int) int { return a / b }

//@ contract zzSelfDiv
//@   modifies nothing

func zzSelfIdx(a []uint16, i int) uint16 { return a[i] }

//@ contract zzSelfIdx
//@   requires i >= 0
//@   modifies nothing

func zzSelfNil(p *zzQ) int { return p.f }

//@ contract zzSelfNil
//@   modifies nothing

func zzSelfJoin(c container, flag bool) {
	if flag {
		c.iadd(5)
	}
}

//@ contract zzSelfJoin
//@   requires cwf(c) && croom(c)
//@   ensures cmem(c, 5)                            -- false when !flag (a fact of one branch must not survive the join)
//@   modifies repr(c)

func zzSelfPredArg(c container, d container) int { return 0 }

//@ contract zzSelfPredArg
//@   requires cwf(c) && cwf(d)
//@   ensures forall v in 0..65536 :: cmem(c, v) <==> cmem(d, v)       -- false: two unrelated containers
//@   modifies nothing

func zzSelfPredHeap(ac *arrayContainer) {
	if len(ac.content) > 0 {
		ac.content[0] = 9
	}
}

//@ contract zzSelfPredHeap
//@   requires awf(ac)
//@   ensures forall v in 0..65536 :: amem(ac, v) <==> old(amem(ac, v))     -- false: the first element was overwritten
//@   modifies elems(ac.content)

func zzMask(x uint32) uint32 { return x & 0xffff0000 }

//@ contract zzMask
//@   ensures res == x - x % 65536
//@   modifies nothing

func zzSelfWrap(a uint16, b uint16) int { return int(a + b) }

//@ contract zzSelfWrap
//@   ensures res == a + b                      -- false: uint16 addition wraps
//@   modifies nothing
'''
ENGINE_KEYS = ['roaring.zzSelfFrame', 'roaring.zzSelfFresh', 'roaring.zzSelfByte', 'roaring.zzSelfWrap', 'roaring.zzSelfMkBad', 'roaring.zzSelfElemFrame', 'roaring.zzSelfIfaceEref', 'roaring.zzSelfLoopFrame', 'roaring.zzSelfAlias', 'roaring.zzSelfAppendAlias', 'roaring.zzSelfCallFrame', 'roaring.zzSelfNested', 'roaring.zzSelfSub', 'roaring.zzSelfBreak', 'roaring.zzSelfInline', 'roaring.zzSelfShadow', 'roaring.zzSelfTypeSwitch', 'roaring.zzSelfDiv', 'roaring.zzSelfIdx', 'roaring.zzSelfNil', 'roaring.zzSelfJoin', 'roaring.zzSelfPredArg', 'roaring.zzSelfPredHeap', 'roaring.zzBEwrong']
ENGINE_OK = ['roaring.zzCopyStruct', 'roaring.zzSelfCallee', 'roaring.zzP.bump', 'roaring.zzB.bumpAll', 'roaring.zzMk', 'roaring.zzMask', 'roaring.zzBE', 'roaring.zzBEPut']

FIX_COMMITS = [
 ('d2f9f61', 'roaring.runContainer16.not', 'not/'),
 ('7b1b21d', 'roaring.bitmapContainer.addOffset', 'addOffset/'),
 ('1b5427e', 'roaring.runContainer16.iremoveRange', 'iremoveRange'),
 ('c1b2631', 'roaring.runContainer16.or', 'or'),
 ('af24782', 'roaring.runContainer16.addOffset', 'addOffset'),
 ('ba312a2', 'roaring64.Bitmap.ReadFrom,roaring64.Bitmap.FromUnsafeBytes', '/'),
 ('a1b2e12', 'roaring.runContainer16.ixorBitmap', 'ixorBitmap'),
 ('8a6ff4c', 'roaring.bitmapContainer.NextUnsetBit', 'NextUnsetBit/'),
 ('58346d0', 'roaring.runContainer16.validate', 'validate/'),
 ('7508b48', 'roaring.roaringArray.getFastContainerAtIndex', 'getFastContainerAtIndex/'),
 ('fa35648', 'roaring.arrayContainer.ixor', 'ixor/'),
]


# counterexample replay: (name, file, old, new, key, must_confirm)
CEX = [
 ('cex-headerSize', 'roaringarray.go', 'if size < noOffsetThreshold { // for small', 'if size <= noOffsetThreshold { // for small', 'roaring.roaringArray.headerSize', True),
 ('cex-ReadUInt16-bounds', 'internal/byte_input.go', 'if len(b.buf)-b.off < 2 {', 'if len(b.buf)-b.off < 1 {', 'internal.ByteBuffer.ReadUInt16', True),
 ('cex-binarySearch-result', 'setutil.go', 'return -(low + 1)', 'return -low', 'roaring.binarySearch', True),
]


def run(cmd, **kw):
    return subprocess.run(cmd, shell=True, stdout=subprocess.PIPE, stderr=subprocess.STDOUT, text=True, **kw).stdout


def verify(repo, keys):
    return run(f'{RVC} verify -repo {repo} -x -f {keys} -t 10')


def failed(out, expect):
    for line in out.splitlines():
        line = line.strip()
        if re.match(r'^(sat|unknown|timeout|error)\s', line) and expect in line:
            return line
        if 'SPEC ERROR' in line or line.startswith('CRASH'):
            return None
    return None


def main():
    flt = sys.argv[1] if len(sys.argv) > 1 else ''
    d = tempfile.mkdtemp(prefix='selftest.', dir=SCRATCH)
    bad = 0
    try:
        run(f'rsync -a --exclude .git {REPO}/ {d}/')
        # 0. engine reproducers
        if not flt or 'engine' in flt:
            open(os.path.join(d, 'zz_selftest_verif.go'), 'w').write(ENGINE)
            out = verify(d, ','.join(ENGINE_KEYS + ENGINE_OK))
            for k in ENGINE_KEYS:
                ok = re.search(r'^FAIL\s+' + re.escape(k) + r'\s', out, re.M)
                print(('caught   ' if ok else 'MISSED   ') + 'engine:' + k)
                bad += 0 if ok else 1
            for k in ENGINE_OK:
                ok = re.search(r'^OK\s+' + re.escape(k) + r'\s', out, re.M)
                print(('proved   ' if ok else 'NOT PROVED ') + 'engine:' + k + ' (true contract, must verify)')
                bad += 0 if ok else 1
            os.remove(os.path.join(d, 'zz_selftest_verif.go'))
        if not flt or 'cex' in flt:
            # a model that the real code does not follow must not be reported as a failing input
            open(os.path.join(d, 'zz_selftest_verif.go'), 'w').write(ENGINE)
            out = run(f'{RVC} verify -repo {d} -x -f roaring.zzCexCaller -t 10 -cex')
            ok = 'sat ' in out and 'replay: confirmed=false' in out and 'confirmed=true' not in out
            print(('ok       ' if ok else 'WRONG    ') + 'cex: a model using a weak callee contract is not confirmed by the real code')
            bad += 0 if ok else 1
            os.remove(os.path.join(d, 'zz_selftest_verif.go'))
            for name, f, old, new, key, must in CEX:
                fp = os.path.join(d, f)
                src = open(fp).read()
                if old not in src:
                    print('STALE    ' + name)
                    bad += 1
                    continue
                open(fp, 'w').write(src.replace(old, new, 1))
                out = run(f'{RVC} verify -repo {d} -x -f {key} -t 10 -cex')
                ok = ('replay: confirmed=true' in out) == must
                print(('ok       ' if ok else 'WRONG    ') + name + ': counterexample replayed on the real code and confirmed')
                bad += 0 if ok else 1
                shutil.copy(os.path.join(REPO, f), fp)
        for m in MUTANTS:
            if flt and flt not in m['name']:
                continue
            files = []
            if m.get('patch'):
                p = os.path.join('/verif', m['patch'])
                files = re.findall(r'^\+\+\+ b/(\S+)', open(p).read(), re.M)
                r = run(f'cd {d} && patch -p1 -s < {p}')
                if r.strip():
                    print('SKIPPED  ' + m['name'] + ': patch does not apply: ' + r.strip()[:100])
                    bad += 1
                    continue
            else:
                fp = os.path.join(d, m['file'])
                s = open(fp).read()
                if m['old'] not in s:
                    print('STALE    ' + m['name'] + ': pattern not found in ' + m['file'])
                    bad += 1
                    continue
                open(fp, 'w').write(s.replace(m['old'], m['new'], 1))
                files = [m['file']]
            out = verify(d, m['keys'])
            hit = failed(out, m['expect'])
            print(('caught   ' if hit else 'MISSED   ') + m['name'] + ('  <- ' + hit[:110] if hit else ''))
            bad += 0 if hit else 1
            for f in files:
                shutil.copy(os.path.join(REPO, f), os.path.join(d, f))
        for c, key, expect in FIX_COMMITS:
            if flt and flt not in c and 'fix' not in flt:
                continue
            r = run(f'cd {REPO} && git show {c} -- . \':!zz_*\' | (cd {d} && patch -R -p1 -s)')
            if r.strip():
                print(f'SKIPPED  reverse of fix {c}: {r.strip()[:100]}')
                bad += 1
                continue
            out = verify(d, key)
            hit = failed(out, expect)
            print(('caught   ' if hit else 'MISSED   ') + f'reverse of fix {c} ({key})' + ('  <- ' + hit[:110] if hit else ''))
            bad += 0 if hit else 1
            run(f'cd {REPO} && git show {c} -- . \':!zz_*\' | (cd {d} && patch -p1 -s)')
    finally:
        shutil.rmtree(d, ignore_errors=True)
    print(f'selftest: {bad} not caught')
    sys.exit(1 if bad else 0)


if __name__ == '__main__':
    main()
