#!/usr/bin/env python3
"""Injects design_asbuilt.md (with generated tables) into DESIGN.md between the ASBUILT markers."""
import json, os, re, glob
V = os.path.dirname(os.path.abspath(__file__))
body = open(os.path.join(V, 'design_asbuilt.md')).read()

def prop_table():
    rows = ['| property | functions under contract | unbounded obligations discharged / selected | bounded (K) passed / checked | left undecided (excluded) | known findings | wall s |', '|---|---|---|---|---|---|---|']
    for f in sorted(glob.glob(os.path.join(V, 'evidence', 'C*.json'))):
        e = json.load(open(f))
        c = e['coverage']
        rows.append(f"| {e['property_id']} | {c.get('functions_under_contract')} | {c.get('discharged')} / {c.get('obligations')} | {c['bounded']['passed']} / {c['bounded']['checked']} (K={c['bounded']['K']}) | {len(c.get('undecided_excluded') or [])} | {len(c.get('known_findings_seen') or [])} | {e.get('wall_s')} |")
    return '\n'.join(rows)

def seed_table():
    p = os.path.join(V, 'seeded', 'RESULTS.md')
    return open(p).read() if os.path.exists(p) else '(not run yet)'

def findings_table():
    k = json.load(open(os.path.join(V, 'known_findings.json')))
    rows = ['| property | obligation | state | what | witness |', '|---|---|---|---|---|']
    for x in k:
        st = 'fixed (' + x['fixed'].split()[2] + ')' if x.get('fixed') else 'OPEN (known finding)'
        rows.append(f"| {x['property']} | `{x['obligation']}` | {st} | {x['what']} | {x.get('witness','')} |")
    return '\n'.join(rows)

nk = 0
files = glob.glob('/repo/zz_*_verif.go') + glob.glob('/repo/*/zz_*_verif.go')
for f in files:
    nk += len(re.findall(r'^//@ (contract|purelemma|iface) ', open(f).read(), re.M))
body = body.replace('@@NKEYS@@', str(nk)).replace('@@NFILES@@', str(len(files)))
def level_notes():
    m = json.load(open(os.path.join(V, 'MANIFEST.json')))
    out = []
    for c in m['checks']:
        out.append(f"* **{c['property_id']}** - {c['level_note'].split(' Trusted: the rvc generator')[0]}")
    for n in m.get('not_applicable', []):
        out.append(f"* **{n['property_id']}** - NOT APPLICABLE: {n['reason']}")
    return '\n'.join(out)
body = body.replace('@@LEVELNOTES@@', level_notes())
body = body.replace('@@PROPTABLE@@', prop_table()).replace('@@SEEDTABLE@@', seed_table()).replace('@@FINDINGS@@', findings_table())
d = open(os.path.join(V, 'DESIGN.md')).read()
d = re.sub(r'<!-- ASBUILT:BEGIN -->.*?<!-- ASBUILT:END -->', lambda m: '<!-- ASBUILT:BEGIN -->\n' + body + '\n<!-- ASBUILT:END -->', d, flags=re.S)
open(os.path.join(V, 'DESIGN.md'), 'w').write(d)
print('DESIGN.md updated')
