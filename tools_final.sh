#!/bin/bash
# Final pipeline (run on a quiet machine): full status run -> properties -> manifest -> every quick check (evidence) ->
# seeded changes -> DESIGN tables. usage: tools_final.sh [stage...]  stages: status props checks seeds design (default: all)
cd /verif; . ./env.sh
STAGES=${@:-status props checks seeds design}
for st in $STAGES; do case $st in
status)
  STATUS_T=${STATUS_T:-8} ./tools_status.sh /var/tmp/status_final 2>&1 | tail -120
  rm -rf /var/tmp/rvc-* ;;
props)
  ./tools_props.py /var/tmp/status_final/*.json | grep -v "left out" ; ./tools_manifest.py ;;
checks)
  mkdir -p /var/tmp/final_logs
  for p in $(python3 -c "import json;print(' '.join(c['property_id'] for c in json.load(open('MANIFEST.json'))['checks']))"); do
    /usr/bin/time -f "$p wall %es" ./check.sh $p quick > /var/tmp/final_logs/$p.log 2>&1; echo "$p exit $? $(tail -1 /var/tmp/final_logs/$p.log | cut -c1-160)"
  done ;;
seeds)
  ./tools_seed_eval.sh ;;
design)
  ./tools_design.py ;;
esac; done
