#!/bin/bash
# usage: tools_seed_eval.sh [seed ...]   (default: all seeds under /verif/seeded)
# For each seeded change: copy /repo to scratch, apply the patch, run the quick check of the property the seed breaks
# (if that property is claimed) and report whether a VIOLATION was raised. Writes /verif/seeded/RESULTS.md.
. /verif/env.sh
cd /verif
SEEDS=${@:-$(ls seeded | grep -v RESULTS)}
OUT=/verif/seeded/RESULTS.md
TMPOUT=$(mktemp)
for s in $SEEDS; do
  [ -f seeded/$s/patch.diff ] || continue
  prop=$(python3 -c "import json;print(json.load(open('seeded/$s/meta.json')).get('property','?'))" 2>/dev/null)
  case $prop in C*) ;; *) prop=$(echo $s | sed 's/[a-z]*$//');; esac
  D=$VERIF_SCRATCH/seedeval.$$.$s
  rm -rf $D; rsync -a --exclude .git /repo/ $D/
  if ! (cd $D && patch -p1 -s < /verif/seeded/$s/patch.diff); then echo "| $s | $prop | patch does not apply |" >> $TMPOUT; rm -rf $D; continue; fi
  if python3 -c "import json,sys;sys.exit(0 if '$prop' in json.load(open('spec/properties.json')) else 1)"; then
    # By default the property's check is restricted to the functions the seed edits (declaration overlaps a hunk of the patch): verification is
    # modular (callers see only contracts), so the obligations of every other function are textually those of the unchanged
    # tree, where they discharge. SEED_FULL=1 runs the whole check instead (same outcome, several times slower).
    if [ -n "$SEED_FULL" ]; then FL=""; else FL="--files /verif/seeded/$s/patch.diff"; fi
    res=$(./bin/rvc check $prop --repo $D --evidence $D/.evidence $FL 2>&1 | grep -E "^VIOLATION|^$prop ")
    nv=$(echo "$res" | grep -c "^VIOLATION")
    nr=$(echo "$res" | grep "^VIOLATION" | grep -c "failing-input-replayed-on-real-code\|failing-input=\"[^\"]")
    first=$(echo "$res" | grep "^VIOLATION" | head -1 | sed 's/.*obligation=//; s/.*bounded-test=/bounded-test=/' | cut -c1-100)
    if [ "$nv" -gt 0 ]; then echo "| $s | $prop | DETECTED ($nv obligations, $nr with a failing input replayed on the real code; first: $first) |" >> $TMPOUT; else echo "| $s | $prop | missed |" >> $TMPOUT; fi
  else
    echo "| $s | $prop | property not claimed yet |" >> $TMPOUT
  fi
  rm -rf $D
done
{ echo "# Seeded changes vs. the registered checks ($(date -u +%FT%TZ))"; echo; echo "| seed | property | outcome of the property's quick check on the changed tree |"; echo "|---|---|---|"; sort $TMPOUT; } > $OUT
rm -f $TMPOUT
cat $OUT
