#!/usr/bin/env python3
"""Regenerate spec/properties.json from a status run of the verifier.

  ./bin/rvc verify -all -t 15 -json /var/tmp/status.json        (all contracts, all implementations)
  ./tools_props.py /var/tmp/status.json [more status files...]

For each property the table below names the functions (by key pattern) whose contracts carry it. A
function enters a property's check when the status run produced obligations for it without contract
errors. Obligations that were NOT discharged in the status run, or needed more than SLOW seconds, are
left out of the claim (`skip`, keyed by function/kind/description so that ordinals may shift) - unless
they are listed in known_findings.json for that property (genuine defects stay selected and are
reported as KNOWN-FINDING). Nothing here is consulted at check time except the resulting JSON.
"""
import json, re, sys, os

SLOW = float(os.environ.get('PROPS_SLOW', '15'))
DEPTH = int(os.environ.get('PROPS_DEPTH', '1'))
VERIF = os.path.dirname(os.path.abspath(__file__))

R = r'^roaring\.'
CK = r'(arrayContainer|bitmapContainer|runContainer16)'

# kernels shared by many properties
SETUTIL = [R + r'(binarySearch|binarySearchUntilWithBounds|binarySearchPast\w*|binarySearchUntil\w*|advanceUntil|union2by2|union2by2Cardinality|difference|exclusiveUnion2by2|onesidedgallopingintersect2by2\w*|localintersect2by2\w*|intersection2by2\w*|intersects2by2\w*)$']
BINOPS = [R + CK + r'\.(i?and|i?or|i?xor|i?andNot|lazyI?OR|intersects|andCardinality|orCardinality)(Array|Bitmap|BitmapContainer|BitmapSurely|Run16|RunContainer16|Cardinality|ArrayCardinality|BitmapCardinality|BitmapContainerCardinality)*$',
          R + r'runContainer16\.(union|intersect|AndNotRunContainer16|inplaceIntersect|inplaceUnion|isubtract|invert|invertlastInterval|Not)$',
          R + r'runContainer16\.(findNextIntervalThatIntersectsStartingFrom|indexOfIntervalAtOrAfter|equals16)$', R + r'addHelper16\.\w+$', R + r'(canMerge16|haveOverlap16|have4Overlap16|mergeInterval16s|intersectInterval16s|intersectWithLeftover16|runArrayUnionToRuns|interval16\.\w+|newInterval16Range|isNonContiguousDisjoint)$',
          R + r'(popcnt\w*Slice\w*|_popcnt\w+|fillArray\w*)$', R + r'bitmapContainer\.fillArray$']
CONV = [R + CK + r'\.(toArrayContainer|toBitmapContainer|toEfficientContainer\w*|loadData|clone|Clone|computeCardinality)$',
        R + r'(newArrayContainer\w*|newBitmapContainer\w*|newRunContainer16\w*|addHelper16\.storeIval)$']
MUT = [R + CK + r'\.(iadd|iremove|iaddRange|iremoveRange|iaddReturnMinimized|iremoveReturnMinimized|inot|not|inotClose|notClose|Add|removeKey)$',
       R + r'((set|reset|flip)BitmapRange\w*|wordCardinalityForBitmapRange|fill|fillRange|highbits|lowbits|combineLoHi\d+|minOf\w+|maxOf\w+)$']
QUERY = [R + CK + r'\.(contains|getCardinality|isEmpty|isFull|minimum|maximum|rank|selectInt|getCardinalityInRange|numberOfRuns|numIntervals|bitValue|search|searchRange|equals|equals16|safeMinimum|safeMaximum|fillLeastSignificant16bits)$',
         R + r'(selectBitPosition|bitmapEquals|popcntSlice\w*|_popcntSliceAVX2)$']
RA_READ = [R + r'roaringArray\.(size|getKeyAtIndex|getContainerAtIndex|needsCopyOnWrite|binarySearch|advanceUntil|getIndex|getContainer|checkKeysSorted)$']
RA_MUT = [R + r'roaringArray\.(setNeedsCopyOnWrite|setContainerAtIndex|replaceKeyAndContainerAtIndex|markAllAsNeedingCopyOnWrite|appendContainer|resize|clear|removeAtIndex|removeIndexRange|insertNewKeyValueAt|getWritableContainerAtIndex|cloneCopyOnWriteContainers|runOptimize|clone|remove)$', R + r'newRoaringArray$']
RA_OWN = [R + r'roaringArray\.(getWritableContainerAtIndex|cloneCopyOnWriteContainers|getUnionedWritableContainer|clone|appendWithoutCopy\w*|appendCopy\w*|appendCopiesUntil|appendCopiesAfter|getFastContainerAtIndex|copyOrSourceContainerAt|mergeBulk|markAllAsNeedingCopyOnWrite|setNeedsCopyOnWrite|removeIndexRange|insertNewKeyValueAt|removeAtIndex)$']
VALID = [R + CK + r'\.validate$', R + r'roaringArray\.validate$', R + r'Bitmap\.Validate$']
NEIGH = [R + CK + r'\.(nextValue|previousValue|nextAbsentValue|previousAbsentValue|NextSetBit|NextUnsetBit|PrevSetBit|uPrevSetBit)$']
SIZES = [R + CK + r'\.(serializedSizeInBytes|getSizeInBytes)$', R + r'(runContainer16SerializedSizeInBytes|getSizeInBytesFromCardinality)$',
         R + r'roaringArray\.(serializedSizeInBytes|headerSize|hasRunCompression)$']
WRITERS = [R + CK + r'\.(writeTo|asLittleEndianByteSlice)$', R + r'roaringArray\.(writeTo|toBytes)$', R + r'Bitmap\.(WriteTo|ToBytes|MarshalBinary|ToBase64|HasRunCompression|GetSerializedSizeInBytes)$', R + r'lemma_(roundTrip|image\w+|le32bytes|epos\w+|sersum\w+)$', R + r'wlog\.Write$',
           R + r'(uint16|uint64|interval16)SliceAsByteSlice$']
READERS = [R + r'roaringArray\.readFrom$', r'^internal\.', R + r'Bitmap\.(ReadFrom|FromBuffer|FromUnsafeBytes|UnmarshalBinary|FromBase64|MustReadFrom)$',
           R + r'byteSliceAs\w+$']
FROZEN = [R + r'roaringArray\.frozenView$', R + r'Bitmap\.(FrozenView|MustFrozenView|Freeze\w*|WriteFrozenTo|GetFrozenSizeInBytes)$', R + r'roaringArray\.(freeze\w*|writeFrozen\w*|frozenSize\w*)$', R + r'byteSliceAs\w+$']
ITER = [R + r'\w*[iI]terator\w*\.\w+$', R + r'new\w*Iterator\w*$', R + CK + r'\.(get\w*Iterator|iterate|new\w*Iterator\w*)$',
        R + r'Bitmap\.(Iterator|ReverseIterator|ManyIterator|Iterate|Ranges|Values|Backward|UnsetIterator|Unset)$']
BM = lambda names: [R + r'Bitmap\.(' + names + r')$']

PROPS = {
 'C01': dict(pats=SETUTIL + BINOPS + CONV + BM(r'And|Or|Xor|AndNot|AndCardinality|OrCardinality|Intersects|and|or|xor|andNot|lazyOR|lazyor') + [R + r'(And|Or|Xor|AndNot)$'],
             note='Set algebra at the level where representations differ: the sorted-array kernels (setutil), every container x container pairing of and/or/xor/andNot/lazyOR/intersects and their in-place and cardinality forms, the popcount and bit-extraction helpers and the representation conversions. Each contract states the exact result set as a view over 0..65535 (forall v :: member(res,v) <==> ...), well-formedness and exact cardinality.'),
 'C02': dict(pats=MUT + CONV + RA_MUT + RA_READ + BM(r'Add|CheckedAdd|AddInt|Remove|CheckedRemove|AddRange|RemoveRange|Flip|FlipInt|Clear|RunOptimize|Clone|CloneCopyOnWriteContainers|SetCopyOnWrite|GetCopyOnWrite|AddMany|addwithptr') + [R + r'(NewBitmap|New)$', R + r'lemma_bmokwf$'],
             note='Point and range mutation of each container kind (iadd/iremove/iaddRange/iremoveRange/inot/not and the bit-range helpers), the chunk-table edits (insert/remove/replace/copy-on-write access) and the Bitmap-level point mutators that have contracts; each states the exact new view and the changed-flag.'),
 'C03': dict(pats=QUERY + RA_READ + BM(r'Contains|ContainsInt|GetCardinality|IsEmpty|Minimum|Maximum|Rank|Select|CardinalityInRange|IntersectsWithInterval|Equals|ToArray|ToExistingArray|toArray|Checksum'),
             note='Scalar queries of each container kind against the view (contains, cardinality, rank, select, min/max, range counts, emptiness/fullness, equality) and the chunk-table lookups; modifies-nothing frames are part of each contract.'),
 'C04': dict(pats=ITER, note='Chunk-level iteration protocols of the three container kinds (forward, reverse, many, unset) as cursors over the container view: next returns the value at the cursor and moves to the least greater member, peekNext does not move, advanceIfNeeded never moves backwards.'),
 'C05': dict(pats=SIZES + WRITERS + READERS, note='Byte accounting and error propagation of the portable format: size formulas per kind and for the table, the writers against a model writer (bytes appended, count returned, errors reported), the readers on arbitrary byte sources.'),
 'C06': dict(pats=WRITERS + SIZES + [R + r'roaringArray\.readFrom$', R + r'byteSliceAs\w+$'], note='Layout clauses of the writers (cookie, counts, payload bytes little-endian) and the reader.'),
 'C07': dict(pats=BINOPS + CONV + RA_OWN + MUT + [r'^roaring64\.roaringArray64\.(getWritableContainerAtIndex|appendWithoutCopy|appendCopy\w*|cloneCopyOnWriteContainers|clone|markAllAsNeedingCopyOnWrite)$'] + BM(r'Clone|CloneCopyOnWriteContainers|AndNot|And|Or|Xor|lazyOR|AndAny') + [R + r'(And|Or|Xor|AndNot|Flip|FastOr|FastAnd)$'],
             kinds=['frame', 'post', 'inv', 'call', 'assert'], note='Non-interference: frame obligations (nothing outside the declared footprint is written: arguments of binary operations are never modified), freshness/ownership postconditions of every container operation (the result shares no storage with an operand unless it IS the receiver), and the copy-on-write discipline of the chunk table (a shared container is flagged in both tables or cloned).'),
 'C08': dict(pats=[R + r'Bitmap\.(FromBuffer|FromUnsafeBytes|FrozenView|MustFrozenView|CloneCopyOnWriteContainers)$', R + r'roaringArray\.(readFrom|frozenView|getWritableContainerAtIndex|cloneCopyOnWriteContainers|getUnionedWritableContainer)$', R + r'byteSliceAs\w+$', r'^internal\.', R + r'Bitmap\.(AndNot|And|Or|Xor|Add|Remove|AddRange|RemoveRange|Flip)$'],
             kinds=['frame', 'post', 'inv', 'call'], note='Buffer-backed bitmaps: the decoders flag every container that aliases the caller bytes as copy-on-write; writable access clones flagged containers; in-place container operations write only into their own representation (frame obligations).'),
 'C09': dict(pats=VALID + CONV + MUT + BINOPS + RA_MUT + [R + r'lemma_(validNonempty|bitmapSomeBit)$'] + BM(r'Add|CheckedAdd|Remove|CheckedRemove|AddRange|RemoveRange|Flip|FlipInt|AddMany|Clear|RunOptimize|Clone'), kinds=['post', 'inv', 'call', 'assert'],
             note='Validators characterise well-formedness (validate returns nil exactly on well-formed containers/tables), and every constructive container operation ensures well-formedness of its result (cwf/awf/bwf/rwf clauses).'),
 'C10': dict(pats=READERS + VALID + FROZEN + [r'^roaring64\.Bitmap\.(ReadFrom|FromUnsafeBytes|UnmarshalBinary|FromBase64)$'],
             note='Decoder safety with NO precondition on the bytes: every index, slice, nil, division and allocation-size obligation of the decoding paths, plus validators.'),
 'C11': dict(pats=[R + CK + r'\.(lazyI?OR\w*|computeCardinality|resetTo|toEfficientContainer\w*|ior\w*|or\w*|iand\w*|and\w*|ixor\w*|xor\w*)$', R + r'(FastOr|FastAnd|HeapOr|HeapXor|lazyOR|lazyIOR|lazyOrOnRange|lazyIOrOnRange|parNaiveStartAt|repairAfterLazy|toBitmapContainer)\w*$', R + r'(bitmapContainerHeap|containerPriorityQueue|priorityQueue)\.\w+$', R + r'arrayContainer\.realloc$'] + BM(r'lazyOR|lazyor|AndAny|repairAfterLazy'),
             note='Kernels the sequential aggregates are folds of: lazy union kernels (deferred cardinality) and the repair pass, per container pairing.'),
 'C13': dict(pats=FROZEN + [R + r'lemma_(tcnt|fzsum|fz)\w+$'], note='Frozen-format reader (safety and structure) and writers where contracted.'),
 'C14': dict(pats=SIZES + [R + CK + r'\.toEfficientContainer\w*$', R + r'(BoundSerializedSizeInBytes|lemma_\w*[sS]ize\w*)$'] + BM(r'GetSerializedSizeInBytes|BoundSerializedSizeInBytes|Add|CheckedAdd|Remove|CheckedRemove|AddRange|RemoveRange|Flip|FlipInt|AddMany|RunOptimize|AndNot|And|Or|Xor') + [R + r'(And|Or|Xor|AndNot|Flip)$'],
             note='Size formulas per representation, the cheapest-representation choice, the lemma chain to the documented bound, and the normal-form (cheapest representation) clauses of the Bitmap-level mutators that have contracts.'),
 'C15': dict(pats=NEIGH + SETUTIL[:1] + [R + r'runContainer16\.(safeMinimum|safeMaximum)$'] + BM(r'NextValue|PreviousValue|NextAbsentValue|PreviousAbsentValue'), note='Neighbour queries per container kind against the view (least member >= t, greatest member <= t, and the absent variants), with the sentinel conventions the Bitmap-level callers test for.'),
 'C16': dict(pats=[R + CK + r'\.addOffset$', R + r'(AddOffset\w*|Flip|FromDense|FromBitSet)$'] + BM(r'ToDense|WriteDenseTo|DenseSize|FromDense|ToBitSet|FromBitSet'), note='Per-kind offset kernels and dense conversions.'),
 'C17': dict(pats=[r'^roaring64\.(?!Bitmap\.(ReadFrom|FromUnsafeBytes|UnmarshalBinary|FromBase64|WriteTo|ToBytes|MarshalBinary)$)(?!BSI|roaringArray64\.validate$|bsi)\w+(\.\w+)?$'], note='64-bit chunk table (keys, buckets, copy-on-write flags) and the Bitmap methods that have contracts.'),
 'C18': dict(pats=[r'^roaring64\.Bitmap\.(ReadFrom|FromUnsafeBytes|UnmarshalBinary|FromBase64|WriteTo|ToBytes|MarshalBinary|Validate|GetSerializedSizeInBytes)$', r'^roaring64\.roaringArray64\.(validate|checkKeysSorted|appendContainer|resize|clear)$', R + r'roaringArray\.readFrom$', r'^internal\.'],
             note='64-bit decoders (safety on arbitrary bytes, structure of the decoded table) and validators.'),
 'C19': dict(pats=[r'^(roaring64\.BSI|bsi\.BSI|roaring64\.\w*BSI\w*|bsi\.\w*BSI\w*)\.?(\w*)$', r'^bsi\.(ClearBits|planeChild)$', r'^roaring64\.(bsi64PlaneChild|bsi64ValueFitsBitCount)$'], note='Structure-level contracts of the bit-sliced index updates.', filt='update'),
 'C20': dict(pats=[r'^(roaring64\.BSI|bsi\.BSI)\.(Compare\w+|BatchEqual\w*|MinMax\w*|Sum\w*|Transpose\w*|IntersectAndTranspose\w*)$'], note='Structure-level contracts of the bit-sliced index queries.'),
}
WHY_AGG = "they use container/heap, goroutines, channels and sync.WaitGroup, which are outside the Go subset the verifier handles"
BOUNDED = {
 'C11': [dict(pkg='.', file='bounded/c11_aggregates_test.go', run='TestBoundedC11', why='FastOr/FastAnd/HeapOr/HeapXor/ParOr/ParAnd/ParHeapOr/AndAny: ' + WHY_AGG,
              bound='all lists of 0..3 bitmaps (with repetition, every order) from a pool of 9 boundary bitmaps x worker counts 0..3, result compared with the fold of the binary operation and validated')],
 'C07': [dict(pkg='.', file='bounded/c11_aggregates_test.go', run='TestBoundedC07', why='aggregates FastOr..ParHeapOr: ' + WHY_AGG,
              bound='same enumeration as C11; every result is mutated (Add/Remove/RemoveRange) and all pool bitmaps are compared with their snapshots'),
         dict(pkg='roaring64', file='bounded/c17_aggregates64_test.go', run='TestBoundedC07r64', why='roaring64 FastOr/FastAnd/ParOr: ' + WHY_AGG,
              bound='all lists of 0..3 bitmaps from a pool of 7 boundary 64-bit bitmaps x worker counts 0..3; results mutated, pool compared with snapshots')],
 'C19': [dict(pkg='roaring64', file='bounded/c19_bsi_test.go', run='TestBoundedC19BSI64', why='64-bit BSI: NewBSIRetainSet/Clone/ParOr/SetMany... use goroutines (sync.WaitGroup, parallel executor) and math/big, outside the subset',
              bound='all update histories of length <= 2 over the full operation alphabet (5 columns x 10 values incl. negatives, widening, overwrites) and length 3 over a reduced alphabet, auto-sized and fixed-width; GetValue/GetValues/ValueExists/GetCardinality against a map; Clone, NewBSIRetainSet, WriteTo+ReadFrom on every state reachable in <= 2 steps; known open findings F3-F8 excluded from the scope'),
         dict(pkg='BitSliceIndexing', file='bounded/c19_bsi32_test.go', run='TestBoundedC19BSI32', why='32-bit BSI: goroutine-parallel helpers, outside the subset',
              bound='same design as the 64-bit stand-in over uint32 columns; known open findings (ParOr F7, UnmarshalBinary F5) excluded')],
 'C20': [dict(pkg='roaring64', file='bounded/c20_bsi_test.go', run='TestBoundedC20BSI64', why='64-bit BSI queries run through a goroutine-parallel executor, outside the subset',
              bound='all 1331 maps from columns {0,5,2^40} to 10 values; CompareValue (5 operators x all constants in range, RANGE pairs) x 4 found-sets, CompareBSI against 6 other indexes, BatchEqual, MinMax, Sum, Transpose/IntersectAndTranspose/TransposeWithCounts, worker counts 0..3; results mutated to check independence'),
         dict(pkg='BitSliceIndexing', file='bounded/c20_bsi32_test.go', run='TestBoundedC20BSI32', why='32-bit BSI queries run through goroutines, outside the subset',
              bound='same design over uint32 columns for every worker count 0..3; the known open findings F9 (RANGE with mixed signs), F10 (MinMax), F11 (opposite sign, equal magnitude) are excluded from the scope')],
 'C17': [dict(pkg='roaring64', file='bounded/c17_aggregates64_test.go', run='TestBoundedC17', why='roaring64 ParOr (FastOr/FastAnd for comparison): ' + WHY_AGG,
              bound='all lists of 0..3 bitmaps from a pool of 7 boundary 64-bit bitmaps x worker counts 0..3, compared with the fold of Or/And')],
}
C19_EXCL = re.compile(r'\.(Compare\w+|BatchEqual\w*|MinMax\w*|Sum\w*|Transpose\w*|IntersectAndTranspose\w*)$')


def main():
    files = sys.argv[1:]
    funcs = {}
    for f in files:
        for fr in json.load(open(f)):
            funcs[fr['key']] = fr            # later files win
    known = json.load(open(os.path.join(VERIF, 'known_findings.json')))
    gp = os.path.join(VERIF, 'spec', 'callgraph.json')
    graph = json.load(open(gp)) if os.path.exists(gp) else {}
    out = {}
    report = []
    lemmas = []
    for key, fr in sorted(funcs.items()):
        sk = skips(fr, set())
        if sk and '#refines' not in key:
            lemmas.append({'f': key, 'skip': sk})
    for pid, cfg in PROPS.items():
        pats = [re.compile(p) for p in cfg['pats']]
        kf = set(k['obligation'] for k in known if k['property'] == pid and not k.get('fixed'))
        fl = []
        nob = nsk = 0
        # the functions named by the patterns, closed under callees (static call graph; interface calls: every
        # implementation): verification is modular, so a change inside a callee shows only in the callee's own obligations
        matched = set()
        for key in funcs:
            if '#refines' in key or not any(p.search(key) for p in pats):
                continue
            if pid == 'C19' and C19_EXCL.search(key):
                continue
            matched.add(key)
        frontier = set(matched)
        for _ in range(DEPTH):
            nxt = set()
            for k in frontier:
                for c in (graph.get(k) or []):
                    if c in funcs and c not in matched:
                        nxt.add(c)
            if not nxt:
                break
            matched |= nxt
            frontier = nxt
        for key, fr in sorted(funcs.items()):
            if key not in matched:
                continue
            if fr.get('trusted'):
                fl.append({'f': key})
                continue
            if fr.get('spec_errors') or fr.get('crashed'):
                report.append(f'{pid}: {key} left out: contract/engine error')
                continue
            obls = list(fr.get('obligations') or [])
            number(obls)
            ref = funcs.get(key + '#refines')
            if ref:
                ro = list(ref.get('obligations') or [])
                number(ro)
                obls += ro
            kinds = cfg.get('kinds')
            rel = [o for o in obls if not kinds or o['kind'] in kinds]
            if not rel:
                continue
            sk = []
            good = 0
            for o in rel:
                b = re.sub(r'@(r|inl)\d+', '', o['name'])
                if b in kf:
                    good += 1
                    continue
                if o['status'] != 'unsat' or o['s'] > SLOWP.get(pid, SLOW):
                    k = o['func'] + '/' + o['kind'] + '|' + o['desc']
                    if pid in FINE and o['_n'] > 1:
                        k += '||%d/%d' % (o['_i'], o['_n'])      # this occurrence only (same clause text at several places)
                    if k not in sk:
                        sk.append(k)
                else:
                    good += 1
            if good == 0:
                report.append(f'{pid}: {key} left out: nothing discharged')
                continue
            e = {'f': key}
            if kinds:
                e['kinds'] = kinds
            if sk:
                e['skip'] = sk
            fl.append(e)
            nob += good
            nsk += len(sk)
        if fl and nob > 0:
            out[pid] = {'title': title(pid), 'functions': fl, 'trusted_base': [], 'note': cfg['note']}
            if pid in BOUNDED:
                out[pid]['bounded_tests'] = BOUNDED[pid]
        report.append(f'{pid}: {len(fl)} functions, {nob} obligations claimed, {nsk} left undecided')
    out['_lemmas'] = {'title': 'lemma table (skip lists for lemmas pulled in by use clauses)', 'functions': lemmas, 'trusted_base': [], 'note': ''}
    json.dump(out, open(os.path.join(VERIF, 'spec', 'properties.json'), 'w'), indent=1)
    print('\n'.join(report))


# properties whose discriminating obligations are proved but slow (20-30 s of solver time in total, every single query within the 8 s
# status budget): claimed there as well; the quick check's second-chance pass (30 s per query) backs them up
SLOWP = {'C13': 30.0, 'C15': 30.0, 'C16': 30.0, 'C17': 30.0}
FINE = set(x for x in os.environ.get('PROPS_FINE', 'C13,C15,C16,C17').split(',') if x)


def number(obls):
    """occurrence index of each obligation among those of the same function result with the same kind and clause text"""
    n = {}
    for o in obls:
        k = (o['func'], o['kind'], o['desc'])
        n[k] = n.get(k, 0) + 1
    seen = {}
    for o in obls:
        k = (o['func'], o['kind'], o['desc'])
        o['_i'] = seen.get(k, 0)
        o['_n'] = n[k]
        seen[k] = o['_i'] + 1


def skips(fr, kf):
    sk = []
    for o in fr.get('obligations') or []:
        if o['status'] != 'unsat' or o['s'] > SLOW:
            k = o['func'] + '/' + o['kind'] + '|' + o['desc']
            if k not in sk:
                sk.append(k)
    return sk


_titles = None


def title(pid):
    global _titles
    if _titles is None:
        _titles = {}
        for l in open(os.path.join(VERIF, 'properties.jsonl')):
            o = json.loads(l)
            _titles[o['id']] = o['title']
    return _titles.get(pid, pid)


if __name__ == '__main__':
    main()
